"""The command line layer (Cli.tla): argument vector + TXTPP_FILE -> refusal | usage error | Config.

TLC explores the parser of Cli.tla token by token (every vector up to the bound), checks the layer's own
invariants and prints one line per finished vector with the outcome and the Config the specification
prescribes.  Every vector is then given to the real binary on a probe project, and the same project is
processed through the library with the prescribed Config: exit status, every file (bytes, and whether it was
rewritten) must agree.  Which property a disagreement belongs to follows from what differs (see `attribute`).

Used as one part of the checks of C04, C06, C07, C09, C11, C13, C17 and C18: each reports only the
disagreements that belong to it."""
import json
import os
import random
import concurrent.futures as cf

from common import (Report, ToolError, build_harness, build_cli, run_tlc, seed, tier, workdir)
from pure_engine import parse_emitted
from pp_engine import vh_cases

SENTINEL_NS = 1_000_000_000 * 1_000_000_000
FAMILY = ("C04", "C06", "C07", "C09", "C11", "C13", "C17", "C18")

CFG = """SPECIFICATION Spec
CONSTANTS
  MaxLen = {maxlen}
  Part = {part}
  Parts = {parts}
INVARIANTS TypeOK GuardFirst CleanInert NeededIsBuild InputsKept OptionsReach Emit
CHECK_DEADLOCK FALSE
"""

PSH = "#!/bin/sh\necho \"P:$1:$2\"\n"
SH_STRING = "{root}/psh A"
SOURCES = [
    dict(path="b/x.txt.txtpp", text="-TXTPP#run echo hi\nlast"),
    dict(path="b/y.txt.txtpp", text="why\n"),
    dict(path="b/sub/n.txt.txtpp", text="n1\n-TXTPP#run echo deep\n"),
    dict(path="psh", text=PSH, mode=0o755),
]
BUILT = [dict(path="b/x.txt", text="hi\nlast\n"), dict(path="b/y.txt", text="why\n"), dict(path="b/sub/n.txt", text="n1\ndeep\n")]
TREES = {
    "fresh": [],
    "built": BUILT,
    "stale": [BUILT[0], dict(path="b/y.txt", text="old\n"), BUILT[2]],
    "nested-stale": [BUILT[0], BUILT[1], dict(path="b/sub/n.txt", text="n1\n")],
}
OUTPUTS = ["b/x.txt", "b/y.txt", "b/sub/n.txt"]


def tlc_vectors(wd, maxlen, parts=14):
    def one(i):
        cfg = os.path.join(wd, f"cli-{i}.cfg")
        open(cfg, "w").write(CFG.replace("{maxlen}", str(maxlen)).replace("{part}", str(i)).replace("{parts}", str(parts)))
        return run_tlc("Cli.tla", cfg, f"cli-{i}", workers=1, timeout=3600, java_opts="-Xss256m -Xmx2g")
    with cf.ThreadPoolExecutor(max_workers=parts) as ex:
        rs = list(ex.map(one, range(parts)))
    vecs, seen, states, bad = [], set(), 0, []
    for r in rs:
        states += r["states"]
        if not r["ok"]:
            bad.append(r)
        for v in parse_emitted(r["out"], "CLI"):
            k = (v["env"], tuple(v["argv"]))
            if k not in seen:
                seen.add(k)
                vecs.append(v)
    return vecs, states, bad


def subst(tok):
    return SH_STRING if tok == "SH" else tok


# the spellings clap derives from main.rs for each option of Cli.tla (the specification works on the short names)
LONG = {"-q": "--quiet", "-v": "--verbose", "-r": "--recursive", "-n": "--no-trailing-newline", "-N": "--needed", "-j": "--threads", "-s": "--shell"}


def spell(argv, rng):
    """the vector as typed: short options, or (seeded) their long spellings, `--threads=3` / `-j3` for option + value"""
    out, i = [], 0
    while i < len(argv):
        t = argv[i]
        nxt = argv[i + 1] if i + 1 < len(argv) else None
        if rng is not None and t in ("-j", "-s") and nxt is not None and not nxt.startswith("-") and rng.random() < 0.25:
            out.append(rng.choice([LONG[t] + "=" + subst(nxt), t + subst(nxt)]))
            i += 2
            continue
        out.append(LONG[t] if (rng is not None and t in LONG and rng.random() < 0.3) else subst(t))
        i += 1
    return out


def cli_step(v, rng=None):
    run = dict(via="cli", base="b", args=spell(v["argv"], rng), timeout_ms=30000)
    if v["env"] == "empty":
        run["env"] = dict(TXTPP_FILE="")
    elif v["env"] == "set":
        run["env"] = dict(TXTPP_FILE="b/x.txt.txtpp")
    return dict(run=run)


def lib_step(c):
    return dict(run=dict(isolate=True, chdir="b", base="b", inputs=[subst(t) for t in c["inputs"]], mode=c["mode"], threads=int(c["threads"]),
                         recursive=c["recursive"], shell=subst(c["shell"]), trailing=c["trailing"]))


def signature(st):
    """what a run did: verdict class and, per path, (bytes, rewritten?)"""
    files = {}
    for p, e in st["tree"].items():
        if "dir" in e:
            continue
        files[p] = (e.get("text", e.get("b64")), e.get("mtime") != SENTINEL_NS)
    v = st["verdict"]
    return dict(verdict=v if v in ("ok", "panic", "hang") else "err", files=files)


def attribute(v, a, b):
    """properties a disagreement between the binary (a) and the prescribed library run (b) belongs to"""
    props = set()
    mode = v["config"]["mode"]
    props |= {dict(clean="C07", verify="C06", needed="C09").get(mode)} - {None}
    if a["verdict"] != b["verdict"]:
        props.add("C04")
        # a verdict that only differs because an option did not arrive belongs to that option's property as well
        for t, p in (("-n", "C13"), ("-s", "C17"), ("-N", "C09"), ("-r", "C11")):
            if t in v["argv"]:
                props.add(p)
    for p in set(a["files"]) | set(b["files"]):
        fa, fb = a["files"].get(p), b["files"].get(p)
        if fa == fb:
            continue
        ta, tb = (fa or (None, 0))[0], (fb or (None, 0))[0]
        if ta is not None and tb is not None and ta != tb:
            if ta.rstrip("\n") == tb.rstrip("\n"):
                props.add("C13")
            if ("P:" in ta) != ("P:" in tb):
                props.add("C17")
            if ta.rstrip("\n") != tb.rstrip("\n") and ("P:" in ta) == ("P:" in tb):
                props.add("C11")
        else:
            props.add("C11")        # a file exists on one side only / is rewritten on one side only
            if mode == "needed":
                props.add("C09")
    return props or {"C11"}


def by_flags(argv):
    props = set()
    for t, p in (("-n", "C13"), ("-s", "C17"), ("SH", "C17"), ("-N", "C09"), ("clean", "C07"), ("verify", "C06"), ("-r", "C11"), ("x.txt", "C11"), ("sub", "C11")):
        if t in argv:
            props.add(p)
    return props or {"C11", "C04"}


def cli_layer(rep, prop, wd):
    """run the layer's conformance and report what belongs to `prop`; returns coverage numbers"""
    build_harness()
    build_cli()
    rng = random.Random(seed() * 7919 + 13)
    quick = tier() == "quick"
    maxlen = 4 if quick else 5

    def mine(ps):
        return prop == "ALL" or prop in ps
    vecs, states, bad = tlc_vectors(wd, maxlen)
    for r in bad:
        for inv in r["violated"] or ["?"]:
            rep.violation(f"spec:Cli:{inv}", f"TLC: {inv} violated in Cli.tla", dict(out=r["out"][-4000:]))
    if not vecs:
        raise ToolError("TLC emitted no vectors for Cli.tla")
    # selection: every vector up to length 3 without TXTPP_FILE, a sample of the longer ones and of the other environments
    short = [v for v in vecs if v["env"] == "unset" and len(v["argv"]) <= 3]
    long_ = [v for v in vecs if v["env"] == "unset" and len(v["argv"]) > 3]
    envs = [v for v in vecs if v["env"] != "unset"]
    sel = short + rng.sample(long_, min(len(long_), 2500 if quick else 40000)) + rng.sample(envs, min(len(envs), 400 if quick else 6000))
    cases, meta = [], []
    for vi, v in enumerate(sel):
        if v["outcome"] == "run":
            names = list(TREES) if len(v["argv"]) <= 2 else [rng.choice(list(TREES))]
        else:
            names = [rng.choice(["built", "stale"])]
        for tn in names:
            files = SOURCES + TREES[tn]
            cases.append(dict(id=f"c{vi}{tn}", files=files, sentinel=True, steps=[cli_step(v, rng if len(v["argv"]) > 1 and tn != "fresh" else None)]))
            meta.append((v, tn, "cli"))
            if v["outcome"] == "run":
                cases.append(dict(id=f"l{vi}{tn}", files=files, sentinel=True, steps=[lib_step(v["config"])]))
                meta.append((v, tn, "lib"))
    res = vh_cases(cases, wd, "cli", templates={})
    compared = drift = 0
    outcomes = set()
    i = 0
    while i < len(cases):
        v, tn, kind = meta[i]
        rc = res[i]
        ctx = f"[txtpp {' '.join(cases[i]['steps'][0]['run']['args'])} | TXTPP_FILE {v['env']} | tree {tn}]"
        key = f"cli:{v['env']}|{' '.join(v['argv'])}|{tn}"
        if rc.get("skipped"):
            i += 2 if v["outcome"] == "run" else 1
            continue
        a_st = rc["steps"][0]
        a = signature(a_st)
        outcomes.add((v["outcome"], v["config"]["mode"], a["verdict"]))
        if a["verdict"] in ("panic", "hang"):
            if mine({"C18"}):
                rep.violation(key, f"the binary {a['verdict']}s {ctx} {a_st.get('stderr', '')[-200:]}", dict(vector=v, tree=tn))
            i += 2 if v["outcome"] == "run" else 1
            continue
        untouched = all(a["files"].get(f["path"]) == (f["text"], False) for f in SOURCES + TREES[tn]) and len(a["files"]) == len(SOURCES + TREES[tn])
        if v["outcome"] == "refused":
            compared += 1
            if not (a_st.get("exit") not in (0, None) and untouched):       # any refusal: non-zero exit, nothing touched
                if mine({"C17"}):
                    rep.violation(key, f"TXTPP_FILE is set but the binary did not refuse to start (exit {a_st.get('exit')}, files touched: {not untouched}) {ctx}",
                                  dict(vector=v, tree=tn, observed=a_st))
            i += 1
            continue
        if v["outcome"] == "usage":
            compared += 1
            if not (a_st.get("exit") not in (0, None) and untouched):
                # the binary acted on a command line the declaration rejects
                if mine(by_flags(v["argv"])) and not untouched:
                    rep.violation(key, f"Cli.tla prescribes a usage error, the binary exited {a_st.get('exit')} and changed files {ctx}", dict(vector=v, tree=tn, observed=a_st))
                else:
                    drift += 1
            i += 1
            continue
        # outcome run: compare with the library under the prescribed Config
        b_st = res[i + 1]["steps"][0]
        i += 2
        b = signature(b_st)
        if b["verdict"] in ("panic", "hang"):
            continue
        compared += 1
        if a_st.get("exit") == 2:
            # the binary rejects a command line that the declaration accepts
            if v["ignored"]:
                drift += 1
            elif mine(by_flags(v["argv"])):
                rep.violation(key, f"the binary rejects a well-formed command line (exit 2) {ctx} {a_st.get('stderr', '')[-200:]}", dict(vector=v, tree=tn))
            continue
        if a["verdict"] == "err" and b["verdict"] == "err" and v["config"]["mode"] in ("build", "needed"):
            # how far a failing build got before it stopped depends on the schedule: only the verdict is comparable
            a = dict(a, files=b["files"])
        if a == b:
            # verbosity is no listed property: only noted
            c = v["config"]
            quiet_ok = (c["verbosity"] != "quiet") or a["verdict"] != "ok" or a_st.get("stderr_len", 0) == 0
            verbose_ok = (c["verbosity"] == "verbose") == bool(a_st.get("verbose_marker")) or a["verdict"] != "ok"
            if not (quiet_ok and verbose_ok):
                drift += 1
            continue
        if v["ignored"]:
            drift += 1          # flags before a subcommand: dropped by the code as modelled; any other treatment is no property's business
            continue
        props = attribute(v, a, b)
        if mine(props):
            diff = {p: dict(binary=a["files"].get(p), prescribed=b["files"].get(p)) for p in set(a["files"]) | set(b["files"]) if a["files"].get(p) != b["files"].get(p)}
            rep.violation(key, f"the binary does not act as the Config Cli.tla prescribes {json.dumps(v['config'])}: verdict {a['verdict']} vs {b['verdict']}, "
                               f"differing files {json.dumps(diff)[:500]} {ctx}", dict(vector=v, tree=tn, binary=a_st, library=b_st))
    if drift:
        rep.note(f"Cli.tla: {drift} vectors where the binary differs only in what no listed property covers (verbosity, flags before a subcommand, acceptance of malformed lines without effect)")
    cov = dict(cli_states=states, cli_vectors_enumerated=len(vecs), cli_vectors_executed=len(sel), cli_runs_compared=compared,
               cli_outcome_classes=len(outcomes), cli_max_len=maxlen,
               cli_rule="Cli.tla: every argument vector of at most %d tokens over 14 tokens (5 flags, -j/-s with numeric, word and hyphen values, both subcommands, "
                        "two inputs) x TXTPP_FILE unset/empty/set, parsed token by token; vectors up to 3 tokens all executed, longer ones sampled; four starting trees "
                        "(fresh, built, one stale output, nested stale output); binary compared with the library under the prescribed Config (verdict, bytes, rewritten or not)" % maxlen)
    rep.coverage.update(cov)
    return cov


def replay_vector(prop, r, wd):
    """re-run one stored vector (binary and prescribed library run); True when they still disagree"""
    v, tn = r["vector"], r["tree"]
    files = SOURCES + TREES[tn]
    cases = [dict(id="c", files=files, sentinel=True, steps=[cli_step(v)])]
    if v["outcome"] == "run":
        cases.append(dict(id="l", files=files, sentinel=True, steps=[lib_step(v["config"])]))
    res = vh_cases(cases, wd, "replay", templates={})
    a_st = res[0]["steps"][0]
    a = signature(a_st)
    print("  binary:", a["verdict"], "exit", a_st.get("exit"), {p: t for p, t in a["files"].items() if p in OUTPUTS})
    if a["verdict"] in ("panic", "hang"):
        return True
    untouched = all(a["files"].get(f["path"]) == (f["text"], False) for f in files) and len(a["files"]) == len(files)
    if v["outcome"] == "refused":
        return not (a_st.get("exit") not in (0, None) and untouched)
    if v["outcome"] == "usage":
        return not untouched
    b = signature(res[1]["steps"][0])
    print("  prescribed:", b["verdict"], {p: t for p, t in b["files"].items() if p in OUTPUTS})
    if a["verdict"] == "err" and b["verdict"] == "err" and v["config"]["mode"] in ("build", "needed"):
        return False
    return a != b


def check_standalone():
    """python3 lib/cli_engine.py [PROP]: run the layer alone (debugging aid)"""
    import sys
    prop = sys.argv[1] if len(sys.argv) > 1 else "ALL"
    rep = Report("C13", "model_checking")
    wd = workdir("CLI")
    cov = cli_layer(rep, prop, wd)
    print(json.dumps(cov, indent=1)[:1500])
    print("violations:", len(rep.violations))
    for k, m, _ in rep.violations[:25]:
        print(" ", m[:700])
    print("notes:", rep.notes)


if __name__ == "__main__":
    check_standalone()
