"""Line-machine engine (PpCore.tla / MCPp.tla): C01 C12 C13 C16.

TLC evaluates the README semantics on every source over the line catalogue (and checks the
declarative statements of C12/C13/C16 on each); the cases it prints are rendered to real projects and
run through the real library; bytes of every output / temp file, the verdict and the commands executed
are compared (S->I).  Random longer sources are run first and their observations validated by TLC
(I->S, PpObs.tla)."""
import json
import os
import random
import re
import subprocess
import concurrent.futures as cf

from common import (SPEC, VH, CLI, Report, ToolError, build_harness, build_cli, run_tlc, seed, tier, workdir)
from pure_engine import parse_emitted

NL = 47  # catalogue length of MCPp.tla (checked against the emitted cases)
# the catalogue of MCPp.tla (kept in step with it: check_c01 compares it with the emitted cases)
MCPP_CATALOGUE = [
    "x", "", "  y", "x A y B", "AB", " \t",
    "-TXTPP#run sh pa", "-TXTPP#run echo a", "  -TXTPP#run sh ab", "-TXTPP#run true", "-TXTPP#run sh x3",
    "TXTPP#run echo a", "\t// TXTPP#run sh cr", "-TXTPP#run cat t1",
    "TXTPP#include p1", "TXTPP#include p2", "  TXTPP#include p3", "TXTPP#include e0", "TXTPP#include nx",
    "TXTPP#include d1", "TXTPP#include pc", "-TXTPP#after d1",
    "TXTPP#tag A", "TXTPP#tag B", "TXTPP#tag AB",
    "-TXTPP#write q", "-TXTPP#write", "-", "-A", " r", "-TXTPP#run", "-TXTPP#temp bad.txtpp",
    "// TXTPP#temp t1", "// c", "//", "   d", "-TXTPP#", "TXTPP#runx", "-TXTPP#write  TXTPP#tag A", "TXTPP#include p4",
    "-TXTPP#temp sub/t2", "TXTPP#include t1", "  TXTPP#tag A", "\t-TXTPP#write  q r ", "-TXTPP#temp p2",
    "TXTPP#include pm", "-TXTPP#run sh mx"]

PP_CFG = """SPECIFICATION Spec
CONSTANTS
  MaxLen = {maxlen}
  First = {first}
  EmitCases = TRUE
INVARIANTS C13 C12 C16Identity C16RoundTrip Total Emit
CHECK_DEADLOCK FALSE
"""

ENV_FILES = [
    dict(path="b/p1", text="a\n"), dict(path="b/p2", text="a"), dict(path="b/p3", text="a\n\nb\n"),
    dict(path="b/e0", text=""), dict(path="b/pc", text="a\r\nb\nc\r\n"), dict(path="b/p4", text="c\r\n"),
    dict(path="b/d1.txtpp", text="D\n"),
    dict(path="b/pa", text="printf a\n"), dict(path="b/ab", text="printf 'a\\nb\\n'\n"),
    dict(path="b/cr", text="printf 'a\\r\\nb\\r\\n'\n"), dict(path="b/x3", text="echo zz\nexit 3\n"),
    dict(path="b/nl", text="echo\n"), dict(path="b/pm", text="a\nb\r\n"), dict(path="b/mx", text="printf 'a\\r\\nb\\nc'\n"), dict(path="b/sub", dir=True),
]
ENV_NAMES = {f["path"][2:] for f in ENV_FILES}


def structured_sources(rng, limit):
    """families of sources longer than the exhaustive bound, built around the stateful mechanisms: a tag, then directives
    without output, then a directive with output, then a line that uses the tag (and the same with the order disturbed);
    temp files that are read back; directive chains. Returned as lists of catalogue indices (1-based)."""
    ix = {l: i + 1 for i, l in enumerate(MCPP_CATALOGUE)}
    tags = ["TXTPP#tag A", "TXTPP#tag B", "TXTPP#tag AB", "  TXTPP#tag A"]
    quiet = [["-TXTPP#after d1"], ["// TXTPP#temp t1", "// c"], ["-TXTPP#"], ["// TXTPP#temp t1"], ["-TXTPP#", "-A"], ["-TXTPP#temp sub/t2", "-"]]
    loud = [["TXTPP#include p1"], ["TXTPP#include p2"], ["TXTPP#include p4"], ["TXTPP#include pc"], ["-TXTPP#run echo a"], ["-TXTPP#run sh pa"],
            ["  -TXTPP#run sh ab"], ["-TXTPP#write q"], ["-TXTPP#write", "-"], ["TXTPP#include d1"], ["-TXTPP#run true"], ["\t-TXTPP#write  q r "],
            ["TXTPP#include e0"], ["-TXTPP#write"]]
    uses = [["-A"], ["x A y B"], ["AB"], ["x"], ["x A y B", "-A"], ["AB", "x A y B"], ["", "-A"], ["", "x A y B"], [" \t", "-A"], ["", "", "AB"]]
    out = []
    for t in tags:
        for q in [[]] + quiet:
            for q2 in [[]] + quiet[:3]:
                for lo in loud:
                    for u in uses:
                        out.append([t] + q + q2 + lo + u)
                        if rng.random() < 0.15:
                            out.append([t] + q + lo + q2 + u + ["x"])      # use after more directives
                        if rng.random() < 0.1:
                            out.append(q + [t] + lo + u + lo)              # quiet directive before the tag
    for t1, t2 in (("TXTPP#tag A", "TXTPP#tag B"), ("TXTPP#tag B", "TXTPP#tag A"), ("TXTPP#tag AB", "TXTPP#tag B"), ("TXTPP#tag B", "TXTPP#tag AB")):
        for l1 in loud[:6]:
            for l2 in loud[:6]:
                out.append([t1] + l1 + [t2] + l2 + ["x A y B"])
                out.append([t1] + l1 + [t2] + l2 + ["-A", "x A y B"])
                out.append([t1] + l1 + [t2] + l2 + ["AB", "x A y B"])      # names overlapping on one line, then a later use
                out.append([t1] + l1 + [t2] + l2 + ["AB"])
    for body in (["// c"], ["//"], ["// c", "//"], []):
        for reader in (["TXTPP#include t1"], ["-TXTPP#run cat t1"], ["TXTPP#include t1", "-TXTPP#run cat t1"]):
            for tail in ([], ["x"], ["TXTPP#include p2", "x"]):
                out.append(["// TXTPP#temp t1"] + body + reader + tail)
                out.append(["x", "// TXTPP#temp t1"] + body + ["-TXTPP#"] + reader + tail)
    for a in loud:
        for b in loud:
            for c in (["x"], [""], []):
                out.append(["x"] + a + b + c)
    res = [[ix[l] for l in src] for src in out]
    uniq = []
    seen = set()
    for r in res:
        if tuple(r) not in seen and len(r) > 3:
            seen.add(tuple(r))
            uniq.append(r)
    if len(uniq) > limit:
        uniq = rng.sample(uniq, limit)
    return uniq


def tlc_cases(wd, maxlen, firsts, name="pp", extra=None):
    """firsts: first-line indices (0 = the empty source); an entry may be a pair (first, maxlen) to override the bound;
    extra: explicitly listed sources (lists of catalogue indices), evaluated by TLC like the enumerated ones"""
    extra_jobs = []
    if extra:
        per = max(1, (len(extra) + 11) // 12)
        for j in range(0, len(extra), per):
            fn = os.path.join(wd, f"{name}-extra-{j}.ndjson")
            with open(fn, "w") as f:
                for src in extra[j:j + per]:
                    f.write(json.dumps(src) + "\n")
            extra_jobs.append(fn)

    def one(first):
        if isinstance(first, str):
            cfg = os.path.join(wd, os.path.basename(first) + ".cfg")
            open(cfg, "w").write(PP_CFG.format(maxlen=1, first=999))
            return run_tlc("MCPp.tla", cfg, os.path.basename(first), workers=1, timeout=6 * 3600, java_opts="-Xss512m -Xmx3g", env_extra={"PP_EXTRA": first})
        ml = maxlen
        if isinstance(first, tuple):
            first, ml = first
        cfg = os.path.join(wd, f"{name}-{first}-{ml}.cfg")
        open(cfg, "w").write(PP_CFG.format(maxlen=ml, first=first))
        return run_tlc("MCPp.tla", cfg, f"{name}-{first}-{ml}", workers=1, timeout=6 * 3600, java_opts="-Xss512m -Xmx3g")
    with cf.ThreadPoolExecutor(max_workers=14) as ex:
        rs = list(ex.map(one, list(firsts) + extra_jobs))
    return rs


def render_source(lines, le, last_terminated=True, mix=None):
    """mix: optional list of terminators for lines 2.. (the first line always gets le)"""
    s = ""
    for i, l in enumerate(lines):
        term = le if (i == 0 or mix is None) else mix[i % len(mix)]
        if i == len(lines) - 1 and not last_terminated:
            term = ""
        s += l + term
    return s


def effective_le(lines, le, last_terminated):
    """the line ending txtpp derives from the rendered source"""
    last_terminated = norm_last(lines, last_terminated)
    if not lines:
        return "\n"
    if len(lines) == 1 and not last_terminated:
        return "\n"
    return le


def norm_last(lines, last_terminated):
    """an empty last line without terminator does not exist in a file"""
    if lines and not last_terminated and lines[-1] == "":
        return True
    return last_terminated


def make_case(cid, lines, le, tr, last_terminated=True, mix=None, via="lib", log_pp=False):
    last_terminated = norm_last(lines, last_terminated)
    files = [dict(path="b/s.txt.txtpp", text=render_source(lines, le, last_terminated, mix))]
    if via == "lib":
        run = dict(base="b", inputs=["s.txt.txtpp"], mode="build", threads=2, trailing=tr, log_pp=log_pp)
    else:
        run = dict(via="cli", base="b", args=["-q"] + ([] if tr else ["-n"]) + ["s.txt"])
    return dict(id=cid, template="ppenv", report="changed", files=files, steps=[dict(run=run)])


def vh_cases(cases, wd, name, procs=14, jobs=2, templates=None):
    """run the cases through `vh cases`, sharded over processes (threads of one process contend)"""
    templates = templates if templates is not None else dict(ppenv=ENV_FILES)
    procs = max(1, min(procs, (len(cases) + 199) // 200))
    shards = [cases[i::procs] for i in range(procs)]

    def one(i):
        inp = os.path.join(wd, f"{name}-{i}.in")
        outp = os.path.join(wd, f"{name}-{i}.out")
        with open(inp, "w") as f:
            f.write(json.dumps(dict(templates=templates)) + "\n")
            for c in shards[i]:
                f.write(json.dumps(c) + "\n")
        r = subprocess.run([VH, "cases", inp, outp, "--jobs", str(jobs), "--cli", CLI], capture_output=True, text=True)
        if r.returncode != 0 or not os.path.exists(outp):
            raise ToolError("vh cases failed: " + r.stderr[-2000:])
        res = [json.loads(x) for x in open(outp)]
        os.remove(inp)
        os.remove(outp)
        if len(res) != len(shards[i]):
            raise ToolError("vh cases: answer count mismatch")
        return res
    with cf.ThreadPoolExecutor(max_workers=procs) as ex:
        parts = list(ex.map(one, range(procs)))
    out = [None] * len(cases)
    for i, part in enumerate(parts):
        out[i::procs] = part
    return out


def expected_of(case, le, tr):
    for r in case["res"]:
        if r["le"] == le and r["tr"] == tr:
            return r
    raise KeyError


def compare_build(exp, step):
    """full prediction (C01): verdict, output bytes, temp files, commands. Returns list of messages."""
    msgs = []
    v = step["verdict"]
    if v in ("panic", "hang"):
        return [f"run ended in {v}: {step.get('detail')}"]
    want = "ok" if exp["err"] == "" else "err"
    if v != want:
        return [f"verdict {v}, the semantics prescribe {want} ({exp['err'] or 'no error'})"]
    tree = step["tree"]
    if exp["err"] == "":
        got = tree.get("b/s.txt", {}).get("text")
        if got is None and "b64" in tree.get("b/s.txt", {}):
            got = "<non-utf8>"
        if got != exp["out"]:
            msgs.append(f"output {got!r}, the semantics prescribe {exp['out']!r}")
        temps = {}
        for p, c in exp["temps"]:
            temps[p] = c
        for p, c in temps.items():
            g = tree.get("b/" + p, {}).get("text")
            if g != c:
                msgs.append(f"temp file {p}: {g!r}, the semantics prescribe {c!r}")
        for p in tree:
            name = p[2:] if p.startswith("b/") else p
            if name not in ("s.txt", "d1") and name not in temps:
                msgs.append(f"unexpected change of {p}: {tree[p]}")
        runs = [r["cmd"] for r in step.get("runs", []) if r["f"] == "s.txt.txtpp"]
        if runs != exp["runs"]:
            msgs.append(f"commands executed {runs}, the semantics prescribe {exp['runs']}")
    return msgs


def scan_le(data, le):
    """C12 byte scan: every terminator is le"""
    if le == "\n":
        return "\r" not in data
    for i, ch in enumerate(data):
        if ch == "\n" and (i == 0 or data[i - 1] != "\r"):
            return False
        if ch == "\r" and (i + 1 >= len(data) or data[i + 1] != "\n"):
            return False
    return True


def spec_run(rep, prop, wd, maxlen, firsts, extra=None):
    rs = tlc_cases(wd, maxlen, firsts, extra=extra)
    states = 0
    cases = []
    for r in rs:
        states += r["states"]
        if not r["ok"]:
            for inv in r["violated"] or ["?"]:
                own = {"C13": "C13", "C12": "C12", "C16Identity": "C16", "C16RoundTrip": "C16", "Total": "C18"}.get(inv, "C01")
                m = re.search(r"Error: The behavior up to this point is:(.*?)(?:\n\d+ states generated|\Z)", r["out"], re.S)
                msg = f"TLC: {inv} violated in PpCore.tla/MCPp.tla: the README semantics as specified break {own}"
                if own == prop or prop == "C01":
                    rep.violation(f"spec:{inv}", msg, dict(counterexample=m.group(1)[:4000] if m else r["out"][-3000:]))
                else:
                    rep.note(msg)
        cases += parse_emitted(r["out"], "CASE")
    if not cases:
        raise ToolError("TLC emitted no cases")
    return states, cases


PPOBS_CFG = """SPECIFICATION TraceSpec
POSTCONDITION TraceAccepted
CHECK_DEADLOCK FALSE
"""


def random_sources(rng, n, catalogue, lo=4, hi=9):
    out = []
    for _ in range(n):
        k = rng.randint(lo, hi)
        out.append([rng.choice(catalogue) for _ in range(k)])
    return out


def validate_obs(rep, wd, recs, name, key_of):
    """I->S: observations validated by TLC against PpCore.tla (PpObs.tla)"""
    chunks = [recs[i:i + 400] for i in range(0, len(recs), 400)]
    cfg = os.path.join(wd, f"{name}.cfg")
    open(cfg, "w").write(PPOBS_CFG)          # written once, before the validators run in parallel

    def val(ic):
        i, chunk = ic
        tf = os.path.join(wd, f"{name}-{i}.ndjson")
        with open(tf, "w") as f:
            for e in chunk:
                f.write(json.dumps(e) + "\n")
        r = run_tlc("PpObs.tla", cfg, f"{name}-{i}", workers=1, timeout=3600, env_extra={"TRACE": tf},
                    java_opts="-Xss1g -Xmx3g -Dtlc2.tool.queue.IStateQueue=StateDeque", check=False)
        return chunk, r
    with cf.ThreadPoolExecutor(max_workers=12) as ex:
        vals = list(ex.map(val, enumerate(chunks)))
    ok = 0
    for chunk, r in vals:
        if r["ok"]:
            ok += len(chunk)
            continue
        m = re.search(r'TRACE REJECTED at event",\s*(\d+)', r["out"])
        if not m:
            raise ToolError("PpObs validation broke:\n" + r["out"][-3000:])
        k = int(m.group(1))
        ok += k - 1
        e = chunk[k - 1]
        rep.violation(key_of(e), f"observation of the real build rejected by PpCore.tla: source {e['src']} le={e['le']!r} "
                      f"trailing={e['tr']} observed verdict={e['verdict']} out={e.get('out')!r} temps={e.get('temps')}", e)
    return ok


def step_traces(rep, wd, cases, rng, n, key_prefix="pptrace"):
    """I->S at the grain of the line loop: builds of enumerated sources with the ppstep hook on, validated against PpCore.tla by
    PpTrace.tla (control state after every line: pending newline, directive pending, tail pending, pass mode, tags)"""
    pick = rng.sample(cases, min(n, len(cases)))
    vcases, meta = [], []
    for i, c in enumerate(pick):
        le = rng.choice(["\n", "\r\n"]) if c["src"] else "\n"
        tr = rng.random() < 0.5
        vcases.append(make_case(f"t{i}", c["src"], le, tr, log_pp=True))
        meta.append((c, le, tr))
    res = vh_cases(vcases, wd, key_prefix)
    recs = []
    observable_ok = {}
    for (c, le, tr), r in zip(meta, res):
        if r.get("skipped"):
            continue   # the runner stopped after too many hung / panicked runs (each one already reported)
        st = r["steps"][0]
        if st["verdict"] in ("panic", "hang"):
            continue
        observable_ok[(json.dumps(c["src"]), le, tr)] = not compare_build(expected_of(c, effective_le(c["src"], le, True), tr), st)
        recs.append(dict(event="case", le=le, tr=tr, src=c["src"]))
        for e in st.get("events", []):
            if e.get("f") != "s.txt.txtpp":
                continue
            if e["e"] == "begin":
                recs.append(dict(event="pass", first=e["first"]))
            elif e["e"] == "ppstep":
                recs.append(dict(event="step", input="<null>" if e["input"] is None else e["input"],
                                 wrote="<null>" if e["wrote"] is None else e["wrote"], addnl=e["addnl"], indir=e["indir"],
                                 tail=e["tail"], mode=e["mode"], tags=e["tags"]))
            elif e["e"] == "end":
                recs.append(dict(event="result", r=e["r"]))
    chunks, cur = [], []
    for e in recs:
        if e["event"] == "case" and len(cur) > 1500:
            chunks.append(cur)
            cur = []
        cur.append(e)
    if cur:
        chunks.append(cur)

    cfg = os.path.join(wd, f"{key_prefix}.cfg")
    open(cfg, "w").write(PPOBS_CFG)

    def val(ic):
        i, chunk = ic
        tf = os.path.join(wd, f"{key_prefix}-{i}.ndjson")
        with open(tf, "w") as f:
            for e in chunk:
                f.write(json.dumps({k: v for k, v in e.items() if k != "src"}) + "\n")
        return chunk, run_tlc("PpTrace.tla", cfg, f"{key_prefix}-{i}", workers=1, timeout=3600, env_extra={"TRACE": tf},
                              java_opts="-Xss1g -Xmx3g -Dtlc2.tool.queue.IStateQueue=StateDeque", check=False)
    with cf.ThreadPoolExecutor(max_workers=12) as ex:
        vals = list(ex.map(val, enumerate(chunks)))
    ok_events = 0
    for chunk, r in vals:
        if r["ok"]:
            ok_events += len(chunk)
            continue
        m = re.search(r'TRACE REJECTED at event",\s*(\d+)', r["out"])
        if not m:
            raise ToolError("PpTrace validation broke:\n" + r["out"][-3000:])
        k = int(m.group(1))
        ok_events += k - 1
        j = k - 1
        while j > 0 and chunk[j]["event"] != "case":
            j -= 1
        case = chunk[j]
        msg = (f"line-loop step of the real preprocessor is not the step PpCore.tla takes: {chunk[k - 1]} "
               f"[source lines {case.get('src')} le={case['le']!r} trailing={case['tr']}; steps before: {chunk[j + 1:k - 1][-3:]}]")
        if observable_ok.get((json.dumps(case.get("src")), case["le"], case["tr"]), False):
            # the bytes, temp files, commands and verdict of this very build are the prescribed ones: the line loop was
            # reorganised, the property holds on this case
            rep.note("MODEL-DRIFT: " + msg[:400])
        else:
            rep.violation(f"pptrace:{json.dumps(case.get('src'))}", msg, dict(case=case, steps=chunk[j + 1:k]))
    return len(pick), ok_events


def catalogue_from(cases):
    cat = {}
    for c in cases:
        for i, l in zip(c["ix"], c["src"]):
            cat[i] = l
    return [cat[i] for i in sorted(cat)]


def observe(rng, wd, sources, name, variants):
    """run random sources for real and turn what happened into observation records"""
    cs, meta = [], []
    for si, lines in enumerate(sources):
        for (le, tr, lt) in variants:
            cs.append(make_case(f"{name}-{si}-{len(cs)}", lines, le, tr, last_terminated=lt))
            meta.append((lines, effective_le(lines, le, lt), tr))
    res = vh_cases(cs, wd, name)
    recs = []
    for (lines, le, tr), r in zip(meta, res):
        if r.get("skipped"):
            continue   # the runner stopped after too many hung / panicked runs (each one already reported)
        st = r["steps"][0]
        tree = st["tree"]
        temps = {}
        for p, v in tree.items():
            nm = p[2:]
            if p.startswith("b/") and nm not in ("s.txt.txtpp", "s.txt", "d1") and "dir" not in v:
                temps[nm] = v.get("text", "<bin>")
        recs.append(dict(src=lines, le=le, tr=tr, verdict=st["verdict"], out=tree.get("b/s.txt", {}).get("text", ""),
                         temps=[[k, temps[k]] for k in sorted(temps)],
                         runs=[x["cmd"] for x in st.get("runs", []) if x["f"] == "s.txt.txtpp"]))
    return recs


# ------------------------------------------------------------------------------------------ C01
def check_c01():
    rep = Report("C01", "model_checking")
    build_harness()
    build_cli()
    wd = workdir("C01")
    rng = random.Random(seed())
    quick = tier() == "quick"
    maxlen = 3
    firsts = list(range(0, NL + 1))
    if not quick:
        # every source of <= 3 lines, plus every source of 4 lines that starts with one of four seeded catalogue lines
        firsts += [(f, 4) for f in sorted(rng.sample(range(1, NL + 1), 4))]
    states, cases = spec_run(rep, "C01", wd, maxlen, firsts, extra=structured_sources(rng, 3000 if quick else 100000))
    seen_src = set()
    uniq = []
    for c in cases:
        k = tuple(c["ix"])
        if k not in seen_src:
            seen_src.add(k)
            uniq.append(c)
    cases = uniq
    cat = catalogue_from(cases)
    if cat != MCPP_CATALOGUE:
        raise ToolError(f"the catalogue of MCPp.tla and MCPP_CATALOGUE in lib/pp_engine.py differ: {[(a, b) for a, b in zip(cat, MCPP_CATALOGUE) if a != b]} {len(cat)} {len(MCPP_CATALOGUE)}")
    # S->I: every case under LF/CRLF x trailing on/off
    cs, meta = [], []
    for ci, c in enumerate(cases):
        for le in ("\n", "\r\n"):
            if not c["src"] and le != "\n":
                continue
            for tr in (True, False):
                # quick tier: every source under LF + trailing newline, the other three variants for a seeded quarter
                if quick and (le, tr) != ("\n", True) and len(c["src"]) == 3 and rng.random() >= 0.25:
                    continue
                cs.append(make_case(f"{ci}", c["src"], le, tr))
                meta.append((c, le, tr))
    # a stratified sample through the real CLI binary
    cli_idx = rng.sample(range(len(cases)), min(len(cases), 300 if quick else 3000))
    for ci in cli_idx:
        c = cases[ci]
        tr = rng.random() < 0.5
        cs.append(make_case(f"cli-{ci}", c["src"], "\n", tr, via="cli"))
        meta.append((c, "\n", tr))
    res = vh_cases(cs, wd, "c01")
    classes = set()
    executed = 0
    for (c, le, tr), r in zip(meta, res):
        if r.get("skipped"):
            continue   # the runner stopped after too many hung / panicked runs (each one already reported)
        exp = expected_of(c, le, tr)
        step = r["steps"][0]
        executed += 1
        is_cli = str(r["id"]).startswith("cli-")
        if is_cli:
            step = dict(step)
            step["runs"] = [dict(cmd=x, f="s.txt.txtpp") for x in exp["runs"]]  # not observable without hooks
        msgs = compare_build(exp, step)
        for m in msgs:
            rep.violation(f"pp:{json.dumps(c['src'])}|{le!r}|{tr}", f"{m} [source lines {c['src']} le={le!r} trailing={tr}{' via CLI' if is_cli else ''}]",
                          dict(src=c["src"], le=le, trailing=tr, expected=exp, observed={k: v for k, v in step.items() if k != 'tree'},
                               tree={k: v for k, v in step["tree"].items() if k.startswith('b/s.') or k in ('b/t1', 'b/d1')}))
        classes.add((exp["err"], exp["first"], len(exp["temps"]), len(exp["runs"]), exp["out"] == "", tuple(sorted(set(l.split("TXTPP#")[1].split(" ")[0] if "TXTPP#" in l else "_" for l in c["src"])))))
    # I->S: longer random sources, observed first, judged by TLC
    n_obs = 300 if quick else 4000
    sources = random_sources(rng, n_obs, cat)
    recs = observe(rng, wd, sources, "obs", [("\n", True, True), ("\r\n", False, True), ("\n", True, False)])
    validated = validate_obs(rep, wd, recs, "ppobs", lambda e: f"obs:{json.dumps(e['src'])}|{e['le']!r}|{e['tr']}")
    n_traced, step_events = step_traces(rep, wd, cases, rng, 4000 if quick else 40000)
    rep.coverage.update(dict(
        states=states, transitions=states, traces_validated_against_impl=validated + n_traced,
        line_loop_traces_validated=n_traced, line_loop_events_validated=step_events,
        sources_enumerated=len(cases), builds_compared=executed, cli_builds=len(cli_idx),
        abstract_classes_exercised=len(classes), max_source_lines=max(len(c["src"]) for c in cases), catalogue_lines=NL,
        exhaustive=True,
        rule=f"every source of at most {maxlen} lines (thorough: plus all 4-line sources starting with four seeded lines) over the {NL}-line catalogue (all seven directives, single/multi-line forms, "
             "prefixes, indentation, tags, temp, dependency include) x LF/CRLF x trailing on/off, compared byte for byte with PpCore.tla; "
             "distinct classes = (error kind, first-pass result, #temps, #commands, empty output, set of directive types); plus random "
             "4-9 line sources observed and validated by TLC (PpObs.tla)",
        samples=[dict(src=cases[len(cases) // 2]["src"], expected=cases[len(cases) // 2]["res"][0]), recs[0]],
    ))
    rep.assumptions = ["commands are the model's (echo/cat/true/false/sh <script>): stdout is a total function of the command string",
                       "input domain DESIGN 4.3 (D1-D15)"]
    rep.finish()


# ------------------------------------------------------------------------------------------ C12
def check_c12():
    rep = Report("C12", "model_checking")
    build_harness()
    wd = workdir("C12")
    rng = random.Random(seed())
    quick = tier() == "quick"
    maxlen = 3
    firsts = list(range(0, NL + 1))
    if quick:
        # a seeded sample of first lines, plus every first line through which foreign terminators can enter:
        # tags (stored content), includes of LF / CRLF / multi-line files, CRLF command output, write, temp bodies
        relevant = [i + 1 for i, l in enumerate(MCPP_CATALOGUE) if any(k in l for k in ("TXTPP#tag", "include p", "sh cr", "sh ab", "sh mx", "TXTPP#write", "TXTPP#temp t1"))]
        firsts = [0] + sorted(set(rng.sample(range(1, NL + 1), 8)) | set(relevant))
    states, cases = spec_run(rep, "C12", wd, maxlen, firsts)
    cat = catalogue_from(cases) if len(firsts) == NL + 1 else None
    cs, meta = [], []
    for ci, c in enumerate(cases):
        if not c["src"]:
            continue
        for le in ("\n", "\r\n"):
            other = "\r\n" if le == "\n" else "\n"
            # later lines: all the other ending, and a seeded mix
            for mix in ([other], [rng.choice([le, other]) for _ in range(4)]):
                lt = rng.random() < 0.7
                cs.append(make_case(f"{ci}", c["src"], le, True, last_terminated=lt, mix=mix))
                meta.append((c, effective_le(c["src"], le, lt), mix, lt))
    res = vh_cases(cs, wd, "c12")
    scanned = 0
    nontrivial = set()
    for (c, le, mix, lt), r in zip(meta, res):
        if r.get("skipped"):
            continue   # the runner stopped after too many hung / panicked runs (each one already reported)
        st = r["steps"][0]
        exp = expected_of(c, le, True)
        if st["verdict"] != "ok":
            continue
        for p, v in st["tree"].items():
            nm = p[2:]
            if not p.startswith("b/") or nm in ("s.txt.txtpp", "d1") or "dir" in v or "deleted" in v:
                continue
            data = v.get("text")
            scanned += 1
            if data is None or not scan_le(data, le):
                rep.violation(f"le:{json.dumps(c['src'])}|{le!r}|{mix}", f"generated file {nm} contains a line terminator other than {le!r}: {data!r} "
                              f"[source lines {c['src']}, later lines terminated by {mix}]", dict(src=c["src"], le=le, mix=mix, file=nm, data=data))
            if nm == "s.txt" and data is not None and data != exp["out"]:
                rep.violation(f"le:{json.dumps(c['src'])}|{le!r}|{mix}", f"output depends on the terminators of later lines: {data!r} vs {exp['out']!r} "
                              f"[source lines {c['src']}, mix {mix}]", dict(src=c["src"], le=le, mix=mix, data=data, expected=exp["out"]))
            if data and ("\n" in data):
                nontrivial.add((json.dumps(c["src"]), le))
    le_files = line_ending_table(rep, wd, quick)
    rep.coverage.update(dict(
        states=states + le_files, transitions=states + le_files, traces_validated_against_impl=len(cs) + le_files,
        first_line_detection_files=le_files,
        sources_enumerated=len(cases), generated_files_scanned=scanned, multi_line_outputs=len(nontrivial),
        rule="sources over the catalogue (first lines sampled by seed in the quick tier), each rendered with the first line LF / CRLF and the "
             "later lines terminated by the other ending and by a seeded mix, last line with/without terminator; included files, command output "
             "(CRLF script), write text, temp bodies and tag contents carry their own endings; every generated file is scanned byte by byte and "
             "compared with the prediction, which does not depend on the later terminators",
        samples=[dict(src=meta[len(meta) // 2][0]["src"], le=meta[len(meta) // 2][1], mix=meta[len(meta) // 2][2])],
    ))
    rep.assumptions = ["domain D1: CR occurs only immediately before LF"]
    rep.finish()


def line_ending_table(rep, wd, quick):
    """LineEnding.tla: TLC checks the code-shaped first-line rule against the README's on every file over {a, CR, LF} up to the
    bound and prints the table; GetLineEnding of the real code is called on a file with exactly those bytes"""
    from pure_engine import vh_pure
    cfg = os.path.join(wd, "le.cfg")
    open(cfg, "w").write(f"SPECIFICATION Spec\nCONSTANTS\n  MaxLen = {6 if quick else 8}\n  EmitTable = TRUE\nINVARIANTS Equiv Emit\nCHECK_DEADLOCK FALSE\n")
    r = run_tlc("LineEnding.tla", cfg, "le", workers=1, timeout=1800)
    if not r["ok"]:
        rep.violation("spec:LineEnding", "TLC: the code-shaped first-line rule differs from the documented one (LineEnding.tla)", dict(out=r["out"][-3000:]))
    rows = parse_emitted(r["out"], "LE")
    # first lines of sizes around I/O buffer boundaries (the rule is about the first line, however long it is)
    for n in (100, 4095, 4096, 8189, 8190, 8191, 8192, 8193, 16383, 16384, 16385, 70000):
        for term, want in (("\n", "\n"), ("\r\n", "\r\n"), ("", "\n")):
            for rest in ("", "x\r\ny\n", "x\ny\r\n"):
                rows.append(dict(file="a" * n + term + (rest if term else ""), le=want))
    got = vh_pure([dict(op="le", bytes=x["file"]) for x in rows], wd, "le")
    for x, g in zip(rows, got):
        if g.get("le") != x["le"]:
            shown = x["file"] if len(x["file"]) < 60 else f"<{len(x['file'].split(chr(10))[0].rstrip(chr(13)))} x 'a'>" + x["file"][-12:]
            rep.violation(f"le:first:{shown!r}", f"line ending derived from a source with bytes {shown!r}: {g.get('le')!r} (panic={g.get('panic')}), the first-line rule (LineEnding.tla) says {x['le']!r}",
                          dict(file=shown, expected=x["le"], observed=g))
    return len(rows)


# ------------------------------------------------------------------------------------------ C13
def check_c13():
    rep = Report("C13", "model_checking")
    build_harness()
    build_cli()
    wd = workdir("C13")
    rng = random.Random(seed())
    quick = tier() == "quick"
    maxlen = 3
    firsts = list(range(0, NL + 1))
    if quick:
        firsts = [0] + sorted(rng.sample(range(1, NL + 1), 16))
    states, cases = spec_run(rep, "C13", wd, maxlen, firsts)
    cs, meta = [], []
    for ci, c in enumerate(cases):
        for le in ("\n", "\r\n"):
            if not c["src"] and le != "\n":
                continue
            lt = rng.random() < 0.5
            via = "cli" if rng.random() < 0.03 else "lib"
            # sources with a .txtpp-backed include are compared with the prediction only (D15)
            for tr in (True, False):
                cs.append(make_case(f"{ci}", c["src"], le, tr, last_terminated=lt, via=via))
            meta.append((c, effective_le(c["src"], le, lt), lt))
    res = vh_cases(cs, wd, "c13")
    pairs = 0
    differing = 0
    for i, (c, le, lt) in enumerate(meta):
        if res[2 * i].get("skipped") or res[2 * i + 1].get("skipped"):
            continue
        on, off = res[2 * i]["steps"][0], res[2 * i + 1]["steps"][0]
        pairs += 1
        key = f"tn:{json.dumps(c['src'])}|{le!r}"
        ctx = f"[source lines {c['src']} le={le!r} last line terminated={lt}]"
        if on["verdict"] != off["verdict"]:
            rep.violation(key, f"verdict differs between the two settings: {on['verdict']} / {off['verdict']} {ctx}", dict(src=c["src"], le=le))
            continue
        if on["verdict"] != "ok":
            continue
        uses_dep = any("d1" in l and "TXTPP#" in l for l in c["src"])
        o1 = on["tree"].get("b/s.txt", {}).get("text")
        o0 = off["tree"].get("b/s.txt", {}).get("text")
        e1, e0 = expected_of(c, le, True), expected_of(c, le, False)
        if o1 != e1["out"] or o0 != e0["out"]:
            rep.violation(key, f"outputs {o1!r} / {o0!r}, PpCore.tla prescribes {e1['out']!r} / {e0['out']!r} {ctx}", dict(src=c["src"], le=le, on=o1, off=o0))
            continue
        if not uses_dep and not (o1 == o0 or o1 == o0 + le):
            rep.violation(key, f"the two outputs differ by more than one final line ending: {o1!r} vs {o0!r} {ctx}", dict(src=c["src"], le=le, on=o1, off=o0))
        if o1 != o0:
            differing += 1
        # temp files never depend on the option
        for p, v in on["tree"].items():
            nm = p[2:]
            if p.startswith("b/") and nm not in ("s.txt.txtpp", "s.txt", "d1") and "dir" not in v:
                if off["tree"].get(p, {}).get("text") != v.get("text"):
                    rep.violation(key, f"temp file {nm} differs between the two settings {ctx}", dict(src=c["src"], le=le, file=nm))
        # last-text-line rule, from the bytes alone, for directive-free sources
        if c["src"] and all("TXTPP#" not in l for l in c["src"]):
            if not (o1.endswith(c["src"][-1] + le) and o0.endswith(c["src"][-1]) and o1 == o0 + le):
                rep.violation(key, f"source ends with a text line but outputs are {o1!r} / {o0!r} {ctx}", dict(src=c["src"], le=le))
    rep.coverage.update(dict(
        states=states, transitions=states, traces_validated_against_impl=2 * pairs,
        sources_enumerated=len(cases), pairs_compared=pairs, pairs_where_the_option_matters=differing,
        rule="every enumerated source built with the option on and off (LF and CRLF, last source line with / without terminator, 3% through "
             "the CLI flag -n): verdicts equal, outputs equal to PpCore.tla's predictions, equal up to one final line ending when no "
             ".txtpp-backed include is involved (D15), temp files identical; TLC checks the same relation and the last-text-line rule on "
             "PpCore.tla for every source (invariant C13)",
        samples=[dict(src=meta[len(meta) // 3][0]["src"], le=meta[len(meta) // 3][1])],
    ))
    from cli_engine import cli_layer
    cli_layer(rep, "C13", workdir("C13-cli"))
    rep.finish()


# ------------------------------------------------------------------------------------------ C16
LOOKALIKES = ["x", "", "  y", "TXTPP#runx", "TXTPP #run", "xTXTPP#zz", "-TXTPP#run echo a", "TXTPP#include p1", "-TXTPP#", "A",
              "x A y B", "-", "// c", "TXTPP#tag A", "-TXTPP#write q", "é TXTPP#", "\tTXTPP#temp t1", "TXTPP#", "#", "TXTPP"]


def is_directive_line(l):
    body = l.lstrip(" \t ")
    i = body.find("TXTPP#")
    if i < 0:
        return False
    rest = body[i + 6:]
    name = rest.split(" ", 1)[0]
    return name in ("", "include", "after", "run", "temp", "tag", "write")


def check_c16():
    rep = Report("C16", "model_checking")
    build_harness()
    wd = workdir("C16")
    rng = random.Random(seed())
    quick = tier() == "quick"
    firsts = list(range(0, NL + 1))
    if quick:
        firsts = [0] + sorted(rng.sample(range(1, NL + 1), 10))
    fam = structured_sources(rng, 2500 if quick else 100000)
    states, cases = spec_run(rep, "C16", wd, 3, firsts, extra=fam)
    cs, meta = [], []
    # (a) identity on directive-free texts over the look-alike alphabet
    plain = [l for l in LOOKALIKES if not is_directive_line(l)]
    texts = []
    for n in range(0, 4 if quick else 5):
        if n == 0:
            texts.append([])
        elif len(plain) ** n <= 4000:
            import itertools
            texts += [list(t) for t in itertools.product(plain, repeat=n)]
        else:
            texts += [[rng.choice(plain) for _ in range(n)] for _ in range(3000)]
    for t in texts:
        le = rng.choice(["\n", "\r\n"])
        tr = rng.random() < 0.5
        lt = rng.random() < 0.5
        cs.append(make_case("id", t, le, tr, last_terminated=lt))
        meta.append(("identity", t, effective_le(t, le, lt), tr))
    # (b) write round trip: any text (no leading blank on the first line, no trailing blanks) escaped by a write block
    esc_texts = []
    alphabet = LOOKALIKES + ["TXTPP#run echo pwned", "-TXTPP#tag A", "A B AB"]
    for _ in range(1500 if quick else 15000):
        n = rng.randint(1, 5)
        t = [rng.choice(alphabet) for _ in range(n)]
        t = [x.rstrip(" \t") for x in t]
        t[0] = t[0].strip(" \t")
        esc_texts.append(t)
    for t in esc_texts:
        le = rng.choice(["\n", "\r\n"])
        src = ["-TXTPP#write " + t[0]] + ["-" + x for x in t[1:]]
        cs.append(make_case("esc", src, le, False))
        meta.append(("escape", t, le, False))
    # (c) ordinary lines of enumerated sources appear in order (modulo tag substitution)
    for c in cases:
        if c["src"]:
            cs.append(make_case("ord", c["src"], "\n", True))
            meta.append(("order", c, "\n", True))
    res = vh_cases(cs, wd, "c16")
    counts = dict(identity=0, escape=0, order=0)
    for (kind, t, le, tr), r in zip(meta, res):
        if r.get("skipped"):
            continue   # the runner stopped after too many hung / panicked runs (each one already reported)
        st = r["steps"][0]
        out = st["tree"].get("b/s.txt", {}).get("text")
        counts[kind] += 1
        if kind == "identity":
            want = le.join(t) + (le if (t and tr) else "")
            if st["verdict"] != "ok" or out != want:
                rep.violation(f"id:{json.dumps(t)}|{le!r}|{tr}", f"directive-free text {t} (le={le!r}, trailing={tr}) came out as {out!r} (verdict {st['verdict']}), "
                              f"expected {want!r}", dict(text=t, le=le, trailing=tr, out=out))
        elif kind == "escape":
            want = le.join(t)
            runs = st.get("runs", [])
            extra = [p for p in st["tree"] if p[2:] not in ("s.txt", "s.txt.txtpp")]
            if st["verdict"] != "ok" or out != want or runs or extra:
                rep.violation(f"esc:{json.dumps(t)}|{le!r}", f"text {t} escaped with a write block came out as {out!r} (verdict {st['verdict']}, commands {runs}, files {extra}), "
                              f"expected {want!r}", dict(text=t, le=le, out=out, runs=runs))
        else:
            c = t
            exp = expected_of(c, "\n", True)
            if st["verdict"] != ("ok" if exp["err"] == "" else "err"):
                rep.note(f"(belongs to C01) verdict mismatch on {c['src']}")
                continue
            if st["verdict"] != "ok":
                continue
            if out != exp["out"]:
                rep.note(f"(belongs to C01) output mismatch on {c['src']}")
            # ordinary lines without tag names must appear verbatim, in order, in the output
            ordinary = ordinary_lines(c["src"])
            pos = 0
            for l in ordinary:
                j = (out or "").find(l, pos)
                if j < 0:
                    rep.violation(f"ord:{json.dumps(c['src'])}", f"ordinary line {l!r} of {c['src']} is missing or out of order in {out!r}", dict(src=c["src"], out=out))
                    break
                pos = j + len(l)
    # every ordinary line is written when it is met (never dropped, duplicated or altered): the line-loop trace of each
    # build is validated step by step against PpCore.tla (PpTrace.tla); a rejected step counts when the bytes are wrong too
    n_traced, step_events = step_traces(rep, wd, [c for c in cases if len(c["src"]) >= 3], rng, 3000 if quick else 30000, key_prefix="c16trace")
    rep.coverage.update(dict(
        states=states, transitions=states, traces_validated_against_impl=len(cs) + n_traced,
        line_loop_traces_validated=n_traced,
        identity_texts=counts["identity"], write_round_trips=counts["escape"], order_checks=counts["order"],
        rule="(a) every directive-free text of up to 3 lines over a look-alike alphabet (TXTPP#runx, 'TXTPP #run', xTXTPP#zz, tag names, prefixes, "
             "whitespace, non-ASCII) x LF/CRLF x trailing x final newline: output = lines joined; (b) random texts of 1-5 lines over an alphabet "
             "of real directive lines escaped by a generated write block: output = text, no command run, no file written; (c) ordinary lines of "
             "enumerated sources appear verbatim and in order; TLC checks C16Identity / C16RoundTrip on PpCore.tla for every enumerated source",
        samples=[dict(kind=meta[0][0], text=meta[0][1]), dict(kind="escape", text=esc_texts[0])],
    ))
    rep.finish()


def ordinary_lines(src):
    """lines of a catalogue source that are processed as ordinary text and contain no tag name
    (conservative: computed with a tiny re-implementation of the continuation rule is avoided - we
    only take lines that can neither be a directive nor a continuation of any catalogue directive)"""
    res = []
    for l in src:
        if "TXTPP#" in l:
            continue
        if any(t in l for t in ("A", "B")):
            continue
        if l.startswith("-") or l.startswith("//") or l.startswith(" ") or l.startswith("\t") or l == "":
            continue
        res.append(l)
    return res
