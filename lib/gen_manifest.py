#!/usr/bin/env python3
"""regenerate MANIFEST.json from the table below (keeps it valid and in one place)"""
import json, os
HERE = os.path.dirname(os.path.dirname(os.path.abspath(__file__)))
props = [json.loads(l)['id'] for l in open(os.path.join(HERE, 'properties.jsonl'))]

ENGINES = {
 "sched": dict(path="spec/Sched.tla spec/MCSched.tla spec/SchedTrace.tla spec/SchedObs.tla spec/apalache/DepMgr.tla lib/sched_engine.py harness/src/sched.rs harness/src/ctl.rs",
               props=["C02", "C03", "C04", "C05"],
               kind="TLC model checking of the coordinator (all digraphs / input lists / interleavings in bounds) + exhaustive gate-level schedule enumeration of the real coordinator through the verif hooks + TLC trace validation of the recorded hook traces"),
 "pure": dict(path="spec/Grammar.tla spec/MCGrammar.tla spec/GrammarTrace.tla spec/TagInject.tla spec/MCTagInject.tla spec/TagTrace.tla lib/pure_engine.py harness/src/pure.rs",
              props=["C14", "C15"],
              kind="TLC checks operational = declarative definitions on a bounded-exhaustive input space and emits the result tables, which are compared call by call with the real functions; observations of the real functions on larger random inputs are validated by TLC"),
 "pp": dict(path="spec/PpCore.tla spec/PpEnv.tla spec/MCPp.tla spec/PpObs.tla spec/PpTrace.tla spec/LineEnding.tla lib/pp_engine.py harness/src/cases.rs",
            props=["C01", "C12", "C13", "C16"],
            kind="the line machine of txtpp as a TLA+ step function over strings (built on Grammar.tla and TagInject.tla); TLC evaluates it on every source over a line catalogue, checks the declarative statements of C12/C13/C16 and prints the expected bytes, which are compared with real builds; observations of larger random sources are validated by TLC"),
 "fs": dict(path="spec/Fs.tla spec/MCFs.tla spec/IoCtx.tla lib/fs_engine.py harness/src/cases.rs",
            props=["C06", "C07", "C08", "C09", "C10"],
            kind="tree-level TLA+ model of the four modes over every abstract state of the generated paths (absent / built(versions, option) / garbage); TLC checks the property statements on every edge and prints the edges, each of which is materialised on disk and executed with the real code (per-transition tests), whole tree compared incl. inode/mtime and decoys"),
 "resolve": dict(path="spec/Resolve.tla spec/MCResolve.tla lib/resolve_engine.py", props=["C11"],
                 kind="TLA+ model of name shapes, input classification, directory scan and dependency closure evaluated by TLC on a fixed tree for every input list in bounds; every case executed for real and observed through per-source markers and tree differences"),
 "run": dict(path="spec/RunTrace.tla spec/PpCore.tla lib/run_engine.py", props=["C17"],
             kind="a probe shell records argv / cwd / TXTPP_FILE of every invocation during real runs; TLC validates each recorded invocation, verdict and output against PpCore.tla (RunTrace.tla)"),
 "robust": dict(path="lib/robust_engine.py spec/Sched.tla", props=["C18"],
                kind="TLC shows that a dying worker hangs the coordinator (necessity) and that the dependency manager's unwrap is safe; seeded hostile-input driver with the totality postcondition as only oracle"),
}
CHECKS = {
 "C11": ("resolve", "model_checking", "TLC evaluates Resolve.tla (three name shapes incl. dotted stems and dot-files, look-alikes, either-name inputs, ./ and ../, absolute paths, duplicates, missing targets, directory scans with/without recursion, dependency closure in build but not in clean) for every input list of <=2 (thorough 3) of 30 expressions and prints verdict / processed set / output paths; each case is run for real", "2.5, 5 C11",
         "fixed tree; lexical path normalisation (no symlinks, D12)", "TLA+ spec Resolve.tla evaluated by TLC on a bounded-exhaustive input space; conformance: expected processed sets and output names compared with real runs"),
 "C17": ("run", "model_checking", "every shell invocation recorded by a probe shell in real runs (library / CLI, depth 0..3, base equal to / above / unrelated to the cwd, relative and absolute base, shell argument lists, single/multi-line commands, failing commands) is validated by TLC against the ExecRun semantics of PpCore.tla; default shell observed through pwd -P, $TXTPP_FILE, $0; exit codes; refusal to start when TXTPP_FILE is set", "2.3, 5 C17",
         "TXTPP_FILE accepted as absolute or base-relative path", "TLC trace validation of recorded shell invocations against the TLA+ spec (RunTrace.tla over PpCore.tla)"),
 "C18": ("robust", "exploration", "TLA+ decides only the design-level part: TLC shows on Sched.tla that a worker dying without sending hangs the coordinator (so panic-freedom of every pass is necessary) and that the dependency manager's counters stay consistent (its unwrap cannot fail); the rest is a seeded driver over hostile sources / trees / option values (thread counts 0..16, four modes, recursion, shells) through library and CLI whose oracle is totality: verdict ok or err within the watchdog, no panic, no abort", "5 C18",
         "exploration only: absence of panics is sampled, not proved; every other check's runs are panic/hang-monitored as well", "seeded hostile-input exploration with a totality oracle; TLC on Sched.tla for the necessity argument (PanicHangs) and DepMgrConsistent"),
 "C06": ("fs", "model_checking", "TLC: VerifyExact on every edge of Fs.tla (every abstract state x inputs x option); code: every selected verify edge executed from a materialised tree (12 corruption kinds per output: byte flips first/middle/last, insert, truncations incl. inside a multi-byte char, extension, deletion, option mismatch, source edited after build), verdict and untouched outputs (bytes, inode, mtime) compared", "2.6, 3.5, 5 C06",
         "4 scenarios x 3 layouts (see evidence); fresh bytes = reference build of the same binary", "TLA+ spec Fs.tla checked with TLC; per-transition conformance tests generated from its edges"),
 "C07": ("fs", "model_checking", "TLC: CleanRemoves, CleanRestores on Fs.tla; code: every clean edge executed from every abstract pre-state, plus build/clean histories (build-clean, clean alone, clean twice, needed-clean) on projects with run directives and erroneous directives: tree after clean = tree before any build, no command executed, verdict ok", "2.6, 3.5, 5 C07",
         "input selections dependency-closed for the restore claim (D14)", "TLA+ spec Fs.tla checked with TLC; per-transition conformance tests + clean histories on the real code"),
 "C08": ("fs", "model_checking", "TLC: BuildHermetic, BuildVerdict, BuildIdempotent, BuildForgets on Fs.tla; code: every selected build edge from every abstract pre-state (absent / stale / each corruption kind), result compared with a pristine reference build; builds killed at every hook event index (incl. every line step) and SIGKILLed at random times, then repaired by building again", "2.6, 3.5, 5 C08",
         "for failing builds only the verdict is compared", "TLA+ spec Fs.tla checked with TLC; per-transition conformance tests + deterministic crash points through the hooks"),
 "C09": ("fs", "model_checking", "TLC: NeededEquivBuild, NoRewriteWhenFresh, NeededAfterBuildIdle on Fs.tla; code: every selected needed-build edge and every temp-writing edge of build/verify: same verdict and bytes as build, touched set (inode, mtime) excludes everything already correct, stale files brought up to date; the same no-rewrite / repair histories over outputs and temp files of 0..70001 bytes around the 8 KiB buffer boundaries (rewrite_size_classes); 1-2% through the CLI flag -N", "2.6, 3.5, 5 C09",
         "touched = inode or mtime (sentinel in 2001) or bytes changed", "TLA+ spec Fs.tla checked with TLC; per-transition conformance tests with inode/mtime comparison"),
 "C10": ("fs", "model_checking", "TLC: OnlyOwnPaths on every edge of Fs.tla; code: edges of all four modes (successful and failing scenarios, three name-shape layouts, inputs by file / output name / directory with -r) executed on trees with decoys at near-miss names; every file that is not an output or temp target of a processed source must keep bytes, inode and mtime, nothing else may appear", "2.6, 3.5, 5 C10",
         "decoy catalogue in lib/fs_engine.py; name resolution itself is C11", "TLA+ spec Fs.tla checked with TLC; per-transition conformance tests comparing the whole tree"),
 "C01": ("pp", "model_checking", "TLC evaluates PpCore.tla (README semantics) on every source of <=3 (thorough: 4) catalogue lines x LF/CRLF x trailing on/off and prints the expected output bytes, temp files, commands and verdict; every case is built for real (library; a sample through the CLI) and compared byte for byte; random longer sources are observed and validated by TLC (PpObs.tla)", "2.3, 5 C01",
         "39-line catalogue and the model's command language (echo/cat/true/false/sh script); domain D1-D15 of DESIGN 4.3", "TLA+ spec PpCore.tla evaluated by TLC on a bounded-exhaustive source space; conformance: expected bytes replayed on real builds + TLC validation of recorded observations (PpObs.tla)"),
 "C12": ("pp", "model_checking", "TLC checks on every enumerated source that each terminator of output and temp files is the file's (invariant C12 on PpCore.tla); real builds of the same sources rendered with mixed LF/CRLF terminators on later lines, CRLF include files and CRLF command output are scanned byte by byte and compared with the prediction", "2.3, 5 C12",
         "domain D1 (CR only before LF)", "TLA+ spec PpCore.tla (invariant C12) + byte scan of real builds against the specification's prediction"),
 "C13": ("pp", "model_checking", "TLC checks outOn = outOff or outOff + LE, equal temps/commands/verdict and the last-text-line rule on every enumerated source (invariant C13); real builds of every enumerated source with the option on and off are compared with each other and with the predictions", "2.3, 5 C13",
         "D15: sources including a .txtpp-backed dependency are compared with the prediction only", "TLA+ spec PpCore.tla (invariant C13) + paired real builds compared with the specification"),
 "C16": ("pp", "model_checking", "TLC checks identity on directive-free sources and the write-escape round trip on every enumerated source (C16Identity, C16RoundTrip); real builds: every directive-free text over a look-alike alphabet, random texts escaped by a generated write block, order of ordinary lines", "2.3, 5 C16",
         "alphabets in evidence", "TLA+ spec PpCore.tla (invariants C16Identity/C16RoundTrip) + real builds of generated texts"),
 "C02": ("sched", "model_checking", "TLC explores every state of Sched.tla (NoBadRead, SuccessComplete: all digraphs, input lists, interleavings within the constants); the real coordinator is driven through every gate-level schedule of projects materialising the same digraphs with stale outputs pre-planted, outputs compared with the one-at-a-time dependency-order build, hook traces validated against Sched.tla", "2.4, 3.2-3.4, 5 C02",
         "bounded: <=3 files exhaustive on the code, <=4 in TLC; interleavings inside a pass body only by free-running runs; trusts the hook placement (begin / before send / poll / recv)",
         "TLA+ spec Sched.tla model-checked with TLC; conformance: exhaustive controlled-schedule replay of the real coordinator + TLC trace validation (SchedTrace.tla)"),
 "C03": ("sched", "model_checking", "TLC: Terminates (liveness under weak fairness), ExitQuiescent, Accounting, AtMostOnce, SuccessComplete over all digraphs incl. cyclic, duplicate inputs, directory scans, clean mode; code: every schedule of the same scenarios, hang detection at the poll gate, per-command marker counts, traces validated against Sched.tla", "2.4, 3.2-3.4, 5 C03",
         "same bounds as C02; a hang is detected as the coordinator polling with nothing outstanding (controlled) or a 30 s watchdog (free-running)",
         "TLA+ spec Sched.tla model-checked with TLC (safety + liveness); conformance: exhaustive controlled-schedule replay + TLC trace validation"),
 "C04": ("sched", "model_checking", "TLC: NoFalseSuccess, FailDetected, NoSpuriousErr for every position of up to 3 failing files (failing before / after dependency collection) under every interleaving; code: every schedule of projects with a fault planted at each position", "2.4, 5 C04",
         "fault kinds on the schedule dimension are directive failures (missing include) before/after the dependency lines; I/O fault kinds are exercised by the tree engine",
         "TLA+ spec Sched.tla model-checked with TLC; conformance: exhaustive controlled-schedule replay with planted faults + TLC trace validation"),
 "C05": ("sched", "model_checking", "TLC: CycleVerdict, NoSpuriousCirc, Bystanders, Terminates over all labelled digraphs with self-loops on <=4 files; code: every schedule of every digraph on 3 files, verdict vs reachability of a cycle, bystander outputs compared", "2.4, 5 C05",
         "same bounds as C02", "TLA+ spec Sched.tla model-checked with TLC; conformance: exhaustive controlled-schedule replay + TLC trace validation"),
 "C14": ("pure", "model_checking", "TLC checks on every bounded case that the code-shaped injection equals the declarative left-to-right scan and is independent of the hash-map iteration order (all permutations), and emits expected results for every case; the real TagState is driven through every case (3 fresh stores, 2 processes) and through random larger sessions that TLC validates", "2.2, 5 C14",
         "bounded name/line alphabets (see evidence); whole-file tag lifecycle is covered by the line-machine engine", "TLA+ spec TagInject.tla checked with TLC; conformance: exhaustive result tables replayed on the real TagState + TLC validation of recorded calls (TagTrace.tla)"),
 "C15": ("pure", "model_checking", "TLC checks Detect = IsDirective/DeclDirective and AddLine = Continues on every line over the property's token alphabet up to the bound and every (directive, candidate) pair, and emits the tables; detect_from / add_line of the real code are compared on every entry, and on random longer lines validated by TLC", "2.1, 5 C15",
         "token alphabet of the property; two placeholder characters stand for non-ASCII whitespace / letters; D5 window excluded", "TLA+ spec Grammar.tla checked with TLC; conformance: exhaustive tables replayed on the real functions + TLC validation of recorded calls (GrammarTrace.tla)"),
}
ENGINES["cli"] = dict(path="spec/Cli.tla lib/cli_engine.py harness/src/cases.rs", props=["C04", "C06", "C07", "C09", "C11", "C13", "C17", "C18"],
                      kind="the command line layer (src/main.rs) as a token-by-token TLA+ parser: TLC checks its invariants on every argument vector in bounds x TXTPP_FILE states and prints the prescribed outcome / Config; every vector is run through the real binary and compared with the library under the prescribed Config (secondary engine of the listed checks)")
CLI_PART = ("; plus the command line layer: every argument vector of Cli.tla (<=4, thorough 5 tokens; TXTPP_FILE unset/empty/set) run through the real binary "
            "and compared with the library under the Config the specification prescribes (verdict, bytes, rewritten or not)")
for _p in ENGINES["cli"]["props"]:
    e = list(CHECKS[_p])
    e[2] += CLI_PART
    e[5] += " + Cli.tla (TLC) with per-vector conformance tests of the binary"
    CHECKS[_p] = tuple(e)
m = {
 "version": 1,
 "setup_cmd": "cd /verif/harness && cp -n /repo/Cargo.lock Cargo.lock; cargo build --offline --quiet && cargo build --offline --quiet --bin txtpp --manifest-path /repo/Cargo.toml --target-dir /verif/target/cli",
 "hooks": {"guard": "cargo feature `verif`", "enable": "the harness crate /verif/harness depends on /repo with features=[\"verif\"] (cargo build --offline in /verif/harness)",
           "baseline_off_cmd": "cd /repo && cargo test --workspace --no-fail-fast --offline", "source_commits": ["30db022"], "add_only": True},
 "engines": [dict(name=k, path=v["path"], serves_properties=v["props"], kind_free_text=v["kind"]) for k, v in ENGINES.items()],
 "checks": [],
 "not_applicable": [],
 "notes": "DESIGN.md explains the approach; KNOWN_FINDINGS.txt lists fixed / known defects; seeded/ holds independent breaking changes used to test the checks",
}
for p in props:
    if p in CHECKS:
        eng, level, text, ref, note, tech = CHECKS[p]
        m["checks"].append({"property_id": p, "quick_cmd": f"./check {p} --tier quick", "thorough_cmd": f"./check {p} --tier thorough",
                            "evidence_file": f"evidence/{p}.json", "replay_cmd_template": f"./check {p} --replay {{path}}", "engine": eng,
                            "level_claimed": {"category": level, "text": text, "design_ref": "DESIGN.md " + ref},
                            "level_note": note, "technique": tech})
    else:
        raise SystemExit("unclaimed property " + p)
json.dump(m, open(os.path.join(HERE, 'MANIFEST.json'), 'w'), indent=1)
print("claimed", [c["property_id"] for c in m["checks"]])
