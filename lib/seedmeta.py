#!/usr/bin/env python3
"""write /verif/seeded/<name>/meta.json from the confirmation logs left by lib/seedtest.sh"""
import json, os, re, sys, glob
NEEDS = {
 "C01-crlf-fastpath": ("C01", "an LF source with an un-indented include/run whose output contains CRLF (e.g. the output of a CRLF .txtpp dependency), not captured by a tag"),
 "C02-takewhile": ("C02", "a file with two .txtpp dependencies [B, C] where B's Ok reaches the coordinator before the file's own HasDeps and C is unfinished: either C still running on another worker, or C reachable only through the file (inputs `b a`)"),
 "C03-added-last": ("C03", "a file with dependencies [C, B] whose last-listed B is already finished and earlier-listed C is not when the coordinator handles its first-pass result, C being scheduled independently"),
 "C04-second-pass-count": ("C04", "file M depends on D, D scheduled independently and received before M's dependency report, the fault sits in M's second pass and nothing else is pending: two cooperating sites (add_total only for first passes, is_done >=)"),
 "C05-selfloop-failfast": ("C05", "a required self-including file S plus an acyclic bystander D that itself has a dependency, S's first-pass result received before D's second pass is scheduled"),
 "C06-verify-buffer": ("C06", "bytes appended to an output whose fresh length is 0, a positive multiple of 8192, or whose last compared chunk is >= 8 KiB and read with an empty buffer"),
 "C07-empty-temp-left": ("C07", "a temp directive that generates a 0-byte file (no body line, or a single empty body line), build then clean"),
 "C08-streaming-compare": ("C08", "a generated path (temp file in any building mode, output in --needed) that already holds the fresh content followed by a non-empty suffix, e.g. after a source edit that shortens the generated content to a prefix"),
 "C09-mtime-shortcut": ("C09", "a stale temp file / --needed output with exactly the byte length of the fresh content and a modification time newer than its .txtpp source"),
 "C10-inner-txtpp-component": ("C10", "a file whose name has `txtpp` as an inner component (config.txtpp.json.bak, a.txtpp.b.c, h.txtpp.tar.gz) in a scanned directory or named as input"),
 "C11-no-canonicalize": ("C11", "the same source reached twice in one run, one spelling containing `..` (two inputs, directory plus file, or a dependency included through ../)"),
 "C12-oneline-tag-verbatim": ("C12", "a listening tag captures one-line output with a trailing newline whose terminator differs from the source's first-line ending (CRLF source + LF include/command/write, or LF source + CRLF include)"),
 "C13-drop-two-endings": ("C13", "trailing newline off and a source ending in a directive (include/run/multi-line write) whose output ends with a newline and is not diverted to a tag"),
 "C14-retain-overlapped": ("C14", "two stored tags whose first occurrences overlap on one line (AB / BC on `ABC`, or one name contained in the other), then something that observes the store: a later use, or the end-of-file check"),
 "C15-trim-before-match": ("C15", "a continuation candidate that is whitespace-only after the leading whitespace (spaces form with empty argument), or the trimmed prefix followed by whitespace that is not the prefix's own"),
 "C16-leading-blank-lost": ("C16", "an un-indented write (or include/run) whose output starts with one or more empty lines"),
 "C17-memoised-run": ("C17", "the same command text twice in one directory within one build: two sources using $TXTPP_FILE (deterministic with -j 1), one source whose command's result changes between two executions, or a command that fails the second time"),
 "C18-charcount-indent": ("C18", "a multi-line directive with a non-ASCII prefix followed by a line indented with at least char-count but fewer than byte-count spaces that is shorter than the byte length or has a multi-byte character at that offset"),
 "r2-C01-after-fills-tag": ("C01", "a tag listening, then an `after` directive, then an output directive, then a use of the tag (or `after` as the last line of a source)"),
 "r2-C02-collect-drops-directive": ("C02", "a file with two .txtpp dependencies where the second include/after line directly follows a run/temp/write/tag/empty directive, and that dependency is not complete when the final pass runs"),
 "r2-C03-forget-finished": ("C03", "a finished file is named again by a later dependency list or directory scan (completion order / input selection)"),
 "r2-C04-no-flush-error": ("C04", "plain build, output can be opened but the final emptying of the 8 KiB buffer fails (symlink to /dev/full with an output < 8 KiB, disk filling in the last partial buffer)"),
 "r2-C05-selfedge-uncounted": ("C05", "a file that includes its own output and also another .txtpp dependency that is unfinished when its dependency report is handled"),
 "r2-C06-missing-empty-output": ("C06", "the output of a source whose fresh output is empty is deleted, then verify"),
 "r2-C07-clean-reparses-continuations": ("C07", "clean of a source with a multi-line run/write/empty directive whose continuation line reads `<prefix>TXTPP#temp FILE` with FILE an existing regular file"),
 "r2-C08-no-truncate-when-empty": ("C08", "a source whose final pass writes zero bytes while non-empty leftover bytes sit at its output path"),
 "r2-C09-compare-by-lines": ("C09", "--needed with an existing output that differs from the fresh one only in line terminators or the final newline"),
 "r2-C10-include-creates-file": ("C10", "a source that includes a missing file (no .txtpp source, directory exists) in build / needed / verify"),
 "r2-C11-dotted-stem-probe": ("C11", "a stem.txtpp.ext source whose stem contains a dot, reached by its output name (input or include/after argument)"),
 "r2-C12-first-line-buffer": ("C12", "a source whose first line ends in CRLF and has at least 8191 bytes before it"),
 "r2-C13-dependency-forced-newline": ("C13", "-n and a .txtpp file scheduled only because another file includes/afters it"),
 "r2-C14-empty-output-not-captured": ("C14", "a listening tag followed by an include/run/write whose output is the empty string"),
 "r2-C15-name-token-trimmed": ("C15", "TXTPP# followed by a directive name and a tab (or a tab before the name), then a space or end of line"),
 "r2-C16-trim-start-matches": ("C16", "a continuation line in same-prefix form whose argument itself begins with the prefix text (`--x` under prefix `-`)"),
 "r2-C17-relative-cwd-again": ("C17", "library use with base_dir different from the process cwd and a run directive in a sub-directory (same class as finding F3)"),
 "r2-C18-display-truncation": ("C18", "a directive whose first argument is longer than 50 bytes with a multi-byte character across byte 50"),
 "r3-C01-overlap-removed-early": ("C01", "two stored tags whose first occurrences overlap on one line, and a later use of the skipped one"),
 "r3-C02-rescan-reruns-finished": ("C02", "a finished dependency listed again by a directory-scan result that arrives later, while a reader of it is inside its pass (two or more workers, build mode)"),
 "r3-C03-dir-dedup-miscount": ("C03", "the same directory reaching the coordinator twice (named twice, an alias, or -r over a directory plus one of its sub-directories)"),
 "r3-C04-signal-is-success": ("C04", "the shell process of a run directive terminated by a signal"),
 "r3-C06-verify-keeps-stale-temp": ("C06", "a source that reads its own temp file back, the temp file existing with stale content when verify runs"),
 "r3-C08-existing-output-hides-source": ("C08", "a name.txtpp.ext dependency whose output already exists as a regular file, referenced by include/after or named by its output name"),
 "r3-C09-deps-built-plainly": ("C09", "--needed with an up-to-date dependency that is reached only through its depender"),
 "r3-C10-staging-file": ("C10", "--needed writing a stale or missing output while a file named <output>.tmp sits next to it (or a directory at the output path)"),
 "r3-C11-skip-sourceless-subdirs": ("C11", "-r over a directory with a source at least two levels down and an intermediate directory without a source of its own"),
 "r3-C14-prefix-check-overwritten": ("C14", "two stored tags and the creation of a third that is prefix-related to one of them; hash-order dependent (about every second run)"),
 "r3-C16-blank-after-captured": ("C16", "a listening tag, a directive captured by it, and a completely empty next line"),
 "r3-C18-overlap-guard-removed": ("C18", "two stored tags whose first occurrences overlap at different offsets on one line"),
 "r4-C05-zero-counter-guard": ("C05", "a chain a -> b -> c of at least three files whose leaf c is requested directly or found by a scan, and Ok(c) handled before b's dependency report"),
 "r4-C07-clean-error-continue": ("C07", "clean of a source where a temp directive whose target is already absent (named twice, deleted by hand, shared) is directly followed by another temp directive with a different prefix"),
 "r4-C12-raw-output-shortcut": ("C12", "an un-indented include/run, not captured by a tag, whose output mixes line endings and whose first terminator equals the source's"),
 "r4-C13-pending-newline-at-eof": ("C13", "-n and a source that ends with an output-producing directive preceded by a text line"),
 "r4-C15-empty-remainder-continuation": ("C15", "a continuation candidate that is exactly whitespace + prefix (prefix ending in whitespace) or whitespace + as many spaces as the prefix is long, with an empty remainder"),
 "r4-C17-guard-needs-existing-file": ("C17", "TXTPP_FILE set to a value that does not name an existing file relative to the new process's working directory (any source below the base directory)"),
 "r5-C02-dotted-stem-include-probe": ("C02", "an include/after whose target has a dotted stem and a stem.txtpp.ext source (table.v2.txtpp.csv): the dependency is not recognised, the directive reads whatever is on disk"),
 "r5-C03-no-canonicalize-absolute": ("C03", "one source reaching the coordinator under two spellings that differ by a `..` component (an include through ../ plus a scan / another route)"),
 "r5-C04-verify-buffer-not-filled": ("C04", "verify of an output on disk that is the fresh output plus trailing bytes, the fresh length being 0 or a multiple of 8192"),
 "r5-C06-done-skipped-without-newline": ("C06", "verify when no final newline is due at end of file (every file under -n; a source ending in output-less directives): bytes appended to the output go unnoticed"),
 "r5-C08-second-pass-keeps-temp": ("C08", "a source with a .txtpp dependency and a temp directive after the dependency line, a leftover file at the temp path"),
 "r5-C10-clean-removes-temp-dir": ("C10", "clean of a temp target that lives in another directory than its source, the directory holding nothing else"),
}
for d in sorted(glob.glob("/verif/seeded/*/")):
    name = os.path.basename(d.rstrip("/"))
    log = os.path.join(d, "confirm.log")
    if not os.path.exists(log):
        continue
    txt = open(log).read()
    m = re.search(r"demo exit with patch: (\d+)\s+without patch: (\d+)", txt)
    # every batch log of this seed, oldest first: the latest status of each property's check wins; the first one is kept too
    logs = sorted(glob.glob(f"/verif/work/seed*-{name}.log"), key=os.path.getmtime)
    if name.startswith("r2-"):
        prop_default = name[3:6]
    checks, first = {}, {}
    for lg in logs:
        for k, v in re.findall(r"check (C\d+) exit (\d+)", open(lg).read()):
            first.setdefault(k, v)
            checks[k] = v
    if not checks:
        checks = dict(re.findall(r"check (C\d+) exit (\d+)", txt))
    prop, needs = NEEDS.get(name, (name[3:6] if name[:3] in ("r2-", "r3-", "r4-", "r5-", "r6-") else name[:3], "see README.md"))
    meta = dict(
        name=name, breaks_property=prop, needs_to_manifest=needs,
        origin="written by an independent sub-agent that saw only the property text and a scratch worktree of the repository",
        confirmed=dict(existing_tests_pass_with_patch="0 failed" in txt and "FAILED" not in txt,
                       demo_exit_with_patch=int(m.group(1)) if m else None, demo_exit_without_patch=int(m.group(2)) if m else None,
                       how="lib/seedtest.sh: patch applied in the scratch worktree, cargo build (also --features verif), cargo test --workspace --offline, "
                           "demo.sh with and without the patch; then `git -C /repo apply patch.diff`, the quick checks below, `git -C /repo checkout -- .`"),
        quick_check_exit_status={k: int(v) for k, v in checks.items()},
        quick_check_exit_status_when_first_tried={k: int(v) for k, v in first.items()},
        detected_by=[k for k, v in checks.items() if v == "1"],
    )
    json.dump(meta, open(os.path.join(d, "meta.json"), "w"), indent=1)
    print(name, meta["quick_check_exit_status"])
