"""./check <ID> --replay <file>: re-execute the single case stored in a replay file written by a failing check.

exit 1 (with a VIOLATION line) if the case still violates the property on the current /repo, exit 0 if it no longer does."""
import json
import os
import subprocess
import sys

from common import VH, Report, ToolError, build_harness, build_cli, workdir


def replay(prop, path):
    d = json.load(open(path))
    r = d.get("replay", {})
    print(f"replaying {path}: {d.get('message', '')[:300]}")
    build_harness()
    build_cli()
    wd = workdir(f"replay-{prop}")
    still = None
    if "scenario" in r and "schedule" in r:                       # scheduler engine
        sc = dict(r["scenario"])
        sc["policy"] = "prefix" if r.get("policy", "dfs") == "dfs" else r.get("policy")
        sc["prefix"] = r["schedule"]
        sf = os.path.join(wd, "scenario.ndjson")
        open(sf, "w").write(json.dumps(sc) + "\n")
        out = os.path.join(wd, "out")
        subprocess.run([VH, "sched", "--scenarios", sf, "--out", out, "--jobs", "1"], capture_output=True, text=True)
        res = json.load(open(os.path.join(out, "result.json")))
        probs = [p for v in res["violations"] for p in v["problems"]]
        for p in probs:
            print(f"  {p['property']}: {p['message']}")
        still = any(p["property"] == prop for p in probs)
    elif "src" in r and ("le" in r or "trailing" in r):              # line-machine engine
        import pp_engine
        c = pp_engine.make_case("replay", r["src"], r.get("le", "\n"), r.get("trailing", True))
        res = pp_engine.vh_cases([c], wd, "replay")[0]["steps"][0]
        print("  verdict:", res["verdict"], "output:", res["tree"].get("b/s.txt"))
        exp = r.get("expected")
        if exp:
            msgs = pp_engine.compare_build(exp, res)
            for m in msgs:
                print("  " + m)
            still = bool(msgs)
    elif r.get("op") in ("detect", "addline"):                       # grammar tables
        import pure_engine
        if r["op"] == "detect":
            g = pure_engine.vh_pure([dict(op="detect", line=pure_engine.render(r["line"]))], wd, "replay")[0]
            print("  observed:", g, "expected:", r.get("expected"))
            still = not pure_engine.same_dir(r["expected"], g) if "expected" in r else None
        else:
            g = pure_engine.vh_pure([dict(op="addline", dline=pure_engine.render(r["dline"]), cands=[pure_engine.render(r["cand"])])], wd, "replay")[0]
            print("  observed:", g, "expected:", r.get("expected"))
            o = g.get("rows", [{}])[0]
            e = r.get("expected", {})
            still = e.get("ok") != o.get("ok") or (e.get("ok") and pure_engine.render(e.get("arg", "")) != o.get("arg"))
    elif "setup" in r and "case" in r:                               # tag store
        import pure_engine
        steps = [[s[0], s[1]] for s in r["setup"]] + [["inject", r["case"]["line"], r["case"]["le"]], ["has"]]
        g = pure_engine.vh_pure([dict(op="tags", steps=steps)], wd, "replay")[0]
        exp = [s[2] for s in r["setup"]] + [r["case"]["out"], r["case"]["has"]]
        print("  observed:", g.get("out"), "expected:", exp)
        still = g.get("out") != exp
    elif "vector" in r and "tree" in r:                              # command line layer
        import cli_engine
        still = cli_engine.replay_vector(prop, r, wd)
    if still is None:
        print("  this kind of replay file is re-examined by running the whole check again")
        import importlib
        os.execv(sys.executable, [sys.executable, os.path.join(os.path.dirname(os.path.dirname(os.path.abspath(__file__))), "check"), prop])
    if still:
        print(f"VIOLATION property={prop} replay={path}")
        sys.exit(1)
    print(f"{prop}: the replayed case no longer violates the property")
    sys.exit(0)
