#!/usr/bin/env python3
"""Self-test of the specifications (not a registered check): every invariant must be falsifiable.

Each entry mutates one specification in a scratch copy of /verif/spec and runs TLC with a small configuration; the run
must end in a violation of (one of) the named invariants / properties. A mutant that TLC accepts means the corresponding
property check is vacuous.  Usage: python3 lib/selftest.py [name-substring]"""
import os
import re
import shutil
import subprocess
import sys

HERE = os.path.dirname(os.path.abspath(__file__))
sys.path.insert(0, HERE)
from common import SPEC, WORK, run_tlc  # noqa: E402
from sched_engine import cfg_text  # noqa: E402

SCHED_SMALL = cfg_text(nf=3, n=2, max_inputs=1, dirs=False, modes="BuildOnly", fails="NoFail", max_fail=0)
SCHED_FAIL = cfg_text(nf=2, n=2, max_inputs=1, dirs=False, modes="BuildOnly", fails="AllFail", max_fail=1)
SCHED_IN2 = cfg_text(nf=2, n=2, max_inputs=2, dirs=False, modes="BuildOnly", fails="NoFail", max_fail=0)
GRAM = "SPECIFICATION Spec\nCONSTANTS\n  MaxTok = 3\n  MaxCand = 2\n  EmitTables = FALSE\n  Part = 0\n  Parts = 1\nINVARIANTS DetectOK ContOK\nCHECK_DEADLOCK FALSE\n"
TAG = ('SPECIFICATION Spec\nCONSTANTS\n  NameSet = {"a", "ab", "b"}\n  MaxTags = 2\n  LineAlpha = {"a", "b"}\n  MaxLine = 3\n  EmitTables = FALSE\n'
       '  Part = 0\n  Parts = 1\nINVARIANTS StoreOK InjectOK\nCHECK_DEADLOCK FALSE\n')
PP = "SPECIFICATION Spec\nCONSTANTS\n  MaxLen = 2\n  First = {first}\n  EmitCases = FALSE\nINVARIANTS C13 C12 C16Identity C16RoundTrip Total\nCHECK_DEADLOCK FALSE\n"
FS = ("SPECIFICATION EdgeSpec\nCONSTANTS\n  Sources <- Src_AB\n  Deps <- Deps_AB\n  HasTemp <- Temp_AB\n  Failing <- Fail_None\nVIEW View\n"
      "INVARIANTS BuildIdempotent BuildForgets CleanRestores NeededAfterBuildIdle\n"
      "PROPERTIES BuildHermetic BuildVerdict NeededEquivBuild NoRewriteWhenFresh VerifyExact CleanRemoves OnlyOwnPaths\nCHECK_DEADLOCK FALSE\n")
CLI = "SPECIFICATION Spec\nCONSTANTS\n  MaxLen = 3\n  Part = 0\n  Parts = 1\nINVARIANTS TypeOK GuardFirst CleanInert NeededIsBuild InputsKept OptionsReach\nCHECK_DEADLOCK FALSE\n"
IO = open(os.path.join(SPEC, "IoCtx.cfg")).read()
LE = "SPECIFICATION Spec\nCONSTANTS\n  MaxLen = 4\n  EmitTable = FALSE\nINVARIANTS Equiv\nCHECK_DEADLOCK FALSE\n"
RES = ("SPECIFICATION Spec\nCONSTANTS\n  DirFilesR <- TreeFiles\n  DirSubsR <- TreeSubs\n  DepsOf <- TreeDeps\n  MaxIn = 0\n  Part = 0\n  Parts = 1\n"
       "INVARIANTS NameOK Shapes\nCHECK_DEADLOCK FALSE\n")

# (name, file, old text, new text, module to run, cfg text, expected violated names)
MUTANTS = [
    ("sched-lost-wakeup (0.1.1 bug: finished dependencies still recorded)", "Sched.tla", "LET new == deps[f] \\ finished IN", "LET new == deps[f] IN",
     "MCSched.tla", SCHED_IN2, {"CycleVerdict", "NoSpuriousCirc", "Terminates", "SuccessComplete", "DepMgrConsistent"}),
    ("sched-release-at-two", "Sched.tla", "Released(f) == {a \\in inEdges[f] : outCnt[a] <= 1}", "Released(f) == {a \\in inEdges[f] : outCnt[a] <= 2}",
     "MCSched.tla", SCHED_SMALL, {"NoBadRead", "AtMostOnce", "DepMgrConsistent"}),
    ("sched-no-dedup", "Sched.tla", "ELSE IF first /\\ x \\in seen", "ELSE IF FALSE /\\ x \\in seen", "MCSched.tla", SCHED_IN2, {"AtMostOnce", "NoBadRead", "Accounting"}),
    ("sched-exit-too-early", "Sched.tla", "/\\ pc = \"loop\" /\\ todo = <<>> /\\ chan = <<>> /\\ done = total", "/\\ pc = \"loop\" /\\ todo = <<>> /\\ chan = <<>> /\\ done + 1 >= total",
     "MCSched.tla", SCHED_SMALL, {"ExitQuiescent", "SuccessComplete", "Accounting", "CycleVerdict", "Bystanders"}),
    ("sched-no-cycle-report", "Sched.tla", "/\\ verdict' = IF \\E f \\in Files : inEdges[f] # {} THEN \"circ\" ELSE \"ok\"", "/\\ verdict' = \"ok\"",
     "MCSched.tla", SCHED_SMALL, {"CycleVerdict", "NoFalseSuccess", "SuccessComplete"}),
    ("sched-failing-file-reports-ok", "Sched.tla", "ELSE IF EffFail(f) # \"none\" THEN [k |-> \"err\", id |-> f]", "ELSE IF FALSE THEN [k |-> \"err\", id |-> f]",
     "MCSched.tla", SCHED_FAIL, {"NoFalseSuccess", "FailDetected"}),
    ("sched-never-reschedule (the depender whose dependencies are all done is dropped)", "Sched.tla", "ELSE todo' = << <<\"file\", x, FALSE>> >>", "ELSE todo' = <<>>",
     "MCSched.tla", SCHED_IN2, {"SuccessComplete", "Terminates", "CycleVerdict"}),
    ("grammar-last-occurrence", "Grammar.tla", "IN IF c = {} THEN 0 ELSE CHOOSE i \\in c : \\A j \\in c : i <= j", "IN IF c = {} THEN 0 ELSE CHOOSE i \\in c : \\A j \\in c : i >= j",
     "MCGrammar.tla", GRAM, {"DetectOK", "ContOK"}),
    ("grammar-name-split-on-any-whitespace", "Grammar.tla", "sp == Find(rest, \" \")", "sp == IF Find(rest, \"\\t\") > 0 /\\ (Find(rest, \" \") = 0 \\/ Find(rest, \"\\t\") < Find(rest, \" \")) THEN Find(rest, \"\\t\") ELSE Find(rest, \" \")",
     "MCGrammar.tla", GRAM, {"DetectOK"}),
    ("tags-no-prefix-check", "TagInject.tla", "CanCreate(st, name) == st.listening = <<>> /\\ \\A k \\in DOMAIN st.stored : ~PrefixRelated(k, name)", "CanCreate(st, name) == st.listening = <<>> /\\ \\A k \\in DOMAIN st.stored : k # name",
     "MCTagInject.tla", TAG, {"StoreOK", "InjectOK"}),
    ("tags-used-tags-kept", "TagInject.tla", "IN [out |-> w.out, st |-> [st EXCEPT !.stored = [k \\in DOMAIN st.stored \\ w.used |-> st.stored[k]]]]", "IN [out |-> w.out, st |-> st]",
     "MCTagInject.tla", TAG, {"InjectOK"}),
    ("pp-trailing-newline-unconditional", "PpCore.tla", "ELSE IF s1.addNl /\\ env.trailing THEN [s1 EXCEPT !.out = @ \\o env.le] ELSE s1", "ELSE IF s1.addNl THEN [s1 EXCEPT !.out = @ \\o env.le] ELSE s1",
     "MCPp.tla", PP.format(first=1), {"C13", "C16Identity", "C16RoundTrip"}),
    ("pp-directive-output-keeps-foreign-endings", "PpCore.tla", "JoinS([i \\in 1..Len(T!RustLines(raw)) |-> ws \\o T!RustLines(raw)[i]], le)", "JoinS([i \\in 1..Len(T!RustLines(raw)) |-> ws \\o T!RustLines(raw)[i]], \"\\n\")",
     "MCPp.tla", PP.format(first=21), {"C12"}),
    ("pp-write-output-rescanned-for-tags", "PpCore.tla", "[] d.type = \"write\" -> <<\"text\", JoinS(d.args, \"\\n\"), st>>", "[] d.type = \"write\" -> <<\"text\", T!Inject([st.tags EXCEPT !.stored = [k \\in {\"q\"} |-> \"Z\"]], JoinS(d.args, \"\\n\"), \"\\n\").out, st>>",
     "MCPp.tla", PP.format(first=26), {"C16RoundTrip", "C13", "C12"}),
    ("fs-verify-ignores-dependencies", "Fs.tla", "good == ~AnyFailing(P) /\\ \\A s \\in P : IsFresh(Out(s), tr) IN", "good == ~AnyFailing(P) /\\ \\A s \\in inputs : IsFresh(Out(s), tr) IN",
     "MCFs.tla", FS, {"VerifyExact"}),
    ("fs-needed-always-writes", "Fs.tla", "IF Kind(g) = \"out\" /\\ ~needed THEN TRUE ELSE ~IsFresh(g, tr)}]", "IF Kind(g) = \"out\" THEN TRUE ELSE ~IsFresh(g, tr)}]",
     "MCFs.tla", FS, {"NoRewriteWhenFresh"}),
    ("fs-clean-follows-dependencies", "Fs.tla", "/\\ fs' = [g \\in Gen |-> IF Src(g) \\in inputs THEN Absent ELSE fs[g]]", "/\\ fs' = [g \\in Gen |-> IF Src(g) \\in Closure(inputs) THEN Absent ELSE fs[g]]",
     "MCFs.tla", FS, {"OnlyOwnPaths", "CleanRemoves"}),
    ("ioctx-verify-forgets-the-rest", "IoCtx.tla", "IF cs = <<>> THEN rem = 0", "IF cs = <<>> THEN TRUE", "IoCtx.tla", IO, {"VerifyExact"}),
    ("lineending-last-byte-only", "LineEnding.tla", "ELSE IF Ch(buf, len) = \"\\n\" THEN (IF Ch(buf, len - 1) = \"\\r\" THEN \"\\r\\n\" ELSE \"\\n\")", "ELSE IF Ch(buf, len) = \"\\n\" THEN \"\\n\"",
     "LineEnding.tla", LE, {"Equiv"}),
    ("resolve-set-extension-bug (finding F4)", "Resolve.tla", "OutputName(n) == IF Ext(n) = \"txtpp\" THEN DropExt(n) ELSE DropExt(DropExt(n)) \\o \".\" \\o Ext(n)",
     "OutputName(n) == IF Ext(n) = \"txtpp\" THEN DropExt(n) ELSE (IF HasExt(DropExt(DropExt(n))) THEN DropExt(DropExt(DropExt(n))) ELSE DropExt(DropExt(n))) \\o \".\" \\o Ext(n)",
     "MCResolve.tla", RES, {"Shapes", "NameOK"}),
    ("cli-verify-drops-the-newline-option", "Cli.tla", "trailing  |-> IF level = \"clean\" THEN TRUE ELSE \"-n\" \\notin Eff.set]",
     "trailing  |-> IF level # \"top\" THEN TRUE ELSE \"-n\" \\notin Eff.set]", "Cli.tla", CLI, {"OptionsReach"}),
    ("cli-guard-after-parsing", "Cli.tla", "Outcome == IF envFile = \"set\" THEN \"refused\"", "Outcome == IF envFile = \"set\" /\\ status # \"usage\" THEN \"refused\"",
     "Cli.tla", CLI, {"GuardFirst"}),
    ("cli-clean-accepts-a-shell", "Cli.tla", "shell     |-> IF level = \"clean\" THEN \"\" ELSE Eff.s,", "shell     |-> top.s,", "Cli.tla", CLI, {"CleanInert", "OptionsReach"}),
]


def main():
    only = sys.argv[1] if len(sys.argv) > 1 else ""
    bad = 0
    for name, fn, old, new, module, cfg, expect in MUTANTS:
        if only and only not in name:
            continue
        wd = os.path.join(WORK, "selftest")
        shutil.rmtree(wd, ignore_errors=True)
        shutil.copytree(SPEC, wd, ignore=shutil.ignore_patterns("states", "*.ndjson"))
        p = os.path.join(wd, fn)
        s = open(p).read()
        if s.count(old) != 1:
            print(f"SELFTEST-ERROR {name}: pattern occurs {s.count(old)} times in {fn}")
            bad += 1
            continue
        open(p, "w").write(s.replace(old, new))
        cfgp = os.path.join(wd, "selftest.cfg")
        open(cfgp, "w").write(cfg)
        r = run_tlc(module, cfgp, "selftest", workers=8, timeout=1800, cwd=wd, check=False)
        got = {v.split(":")[-1] for v in r["violated"]}
        hit = got & expect
        if hit:
            print(f"ok       {name}: TLC reports {sorted(got)}")
        elif got:
            print(f"ok(other) {name}: TLC reports {sorted(got)}, expected one of {sorted(expect)}")
        else:
            print(f"VACUOUS  {name}: TLC accepts the mutated specification ({r['states']} states)")
            if "rror" in r["out"] and not r["ok"]:
                print("   " + [line for line in r["out"].splitlines() if "rror" in line][0][:200])
            bad += 1
    shutil.rmtree(os.path.join(WORK, "selftest"), ignore_errors=True)
    print("selftest:", "all mutants rejected" if bad == 0 else f"{bad} problem(s)")
    sys.exit(1 if bad else 0)


main()
