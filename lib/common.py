"""Shared plumbing of the /verif checks: building, running TLC, evidence, findings."""
import hashlib
import json
import os
import re
import shutil
import subprocess
import sys
import time

VERIF = os.path.dirname(os.path.dirname(os.path.abspath(__file__)))
REPO = os.environ.get("VERIF_REPO", "/repo")
SPEC = os.path.join(VERIF, "spec")
WORK = os.path.join(VERIF, "work")
HARNESS = os.path.join(VERIF, "harness")
VH = os.path.join(HARNESS, "target", "debug", "vh")
CLI_TARGET = os.path.join(VERIF, "target", "cli")
CLI = os.path.join(CLI_TARGET, "debug", "txtpp")
REPLAYS = os.path.join(VERIF, "replays")
EVIDENCE = os.path.join(VERIF, "evidence")
KNOWN = os.path.join(VERIF, "KNOWN_FINDINGS.txt")

TOOL_ERROR = 2


class ToolError(Exception):
    pass


def tier():
    t = os.environ.get("VERIF_TIER", "quick")
    return t if t in ("quick", "thorough") else "quick"


def seed():
    try:
        return int(os.environ.get("VERIF_SEED", "1"))
    except ValueError:
        return 1


def workdir(name):
    p = os.path.join(WORK, name)
    shutil.rmtree(p, ignore_errors=True)
    os.makedirs(p, exist_ok=True)
    return p


def cargo_env():
    e = dict(os.environ)
    e["CARGO_NET_OFFLINE"] = "true"
    return e


_built = {}


def sweep_scratch():
    """scratch trees of harness processes that were killed (never of running ones: only directories untouched for 3 hours)"""
    import glob
    now = time.time()
    for base in ("/dev/shm", "/tmp"):
        for d in glob.glob(os.path.join(base, "vh-*")):
            try:
                if now - os.path.getmtime(d) > 3 * 3600:
                    shutil.rmtree(d, ignore_errors=True)
            except OSError:
                pass


def build_harness():
    """(Re)build the harness against /repo's working tree with the hooks enabled."""
    if _built.get("vh"):
        return
    sweep_scratch()
    lock = os.path.join(HARNESS, "Cargo.lock")
    if not os.path.exists(lock):
        shutil.copy(os.path.join(REPO, "Cargo.lock"), lock)
    r = subprocess.run(["cargo", "build", "--offline", "--quiet"], cwd=HARNESS, env=cargo_env(),
                       capture_output=True, text=True)
    if r.returncode != 0:
        raise ToolError("cargo build of the harness failed:\n" + r.stderr[-4000:])
    _built["vh"] = True


def build_cli():
    """(Re)build the txtpp CLI binary from /repo's working tree (hooks off)."""
    if _built.get("cli"):
        return
    r = subprocess.run(["cargo", "build", "--offline", "--quiet", "--bin", "txtpp", "--manifest-path",
                        os.path.join(REPO, "Cargo.toml"), "--target-dir", CLI_TARGET],
                       env=cargo_env(), capture_output=True, text=True)
    if r.returncode != 0:
        raise ToolError("cargo build of the txtpp CLI failed:\n" + r.stderr[-4000:])
    _built["cli"] = True


_TLC_STATS = re.compile(r"(\d[\d,]*) states generated, (\d[\d,]*) distinct states found")


def run_tlc(module, cfg, name, workers=8, timeout=1800, env_extra=None, java_opts=None, extra=(),
            cwd=SPEC, check=True):
    """Run TLC; returns dict(ok, states, transitions, out, violated, wall)."""
    meta = os.path.join(WORK, "tlc-" + name)
    shutil.rmtree(meta, ignore_errors=True)
    env = dict(os.environ)
    if env_extra:
        env.update(env_extra)
    # TLC / SANY leave tlc-* and SANY* directories in java.io.tmpdir: keep them in a scratch directory that is removed
    jtmp = meta + "-tmp"
    shutil.rmtree(jtmp, ignore_errors=True)
    os.makedirs(jtmp, exist_ok=True)
    env["JAVA_TOOL_OPTIONS"] = ((java_opts + " ") if java_opts else "") + "-Djava.io.tmpdir=" + jtmp
    cmd = ["timeout", str(timeout), "tlc", "-workers", str(workers), "-metadir", meta, "-cleanup",
           "-noGenerateSpecTE", "-config", cfg] + list(extra) + [module]
    t0 = time.time()
    r = subprocess.run(cmd, cwd=cwd, env=env, capture_output=True, text=True)
    wall = time.time() - t0
    shutil.rmtree(meta, ignore_errors=True)
    shutil.rmtree(jtmp, ignore_errors=True)
    out = r.stdout + r.stderr
    m = None
    for m in _TLC_STATS.finditer(out):
        pass
    states = int(m.group(2).replace(",", "")) if m else 0
    trans = int(m.group(1).replace(",", "")) if m else 0
    violated = re.findall(r"Invariant (\w+) is violated", out)
    violated += re.findall(r"The invariant of (\w+) is equal to FALSE", out)
    violated += ["Temporal:" + x for x in re.findall(r"Temporal property (\w+) was violated", out)]
    violated += re.findall(r"Temporal properties were violated", out)
    violated += re.findall(r"Action property (\w+) is violated", out)
    if "Postcondition" in out and "violated" in out and "is violated" not in " ".join(violated):
        pass
    ok = ("Model checking completed. No error has been found." in out) or \
         ("Finished in" in out and "Error:" not in out and r.returncode == 0)
    if r.returncode == 124:
        raise ToolError(f"TLC timed out after {timeout}s on {module}/{cfg}")
    if check and not ok and not violated and "TRACE REJECTED" not in out and "is violated" not in out:
        raise ToolError(f"TLC failed on {module}/{cfg} (exit {r.returncode}):\n" + out[-3000:])
    return dict(ok=ok, states=states, transitions=trans, out=out, violated=violated, wall=wall,
                rc=r.returncode)


def tlc_coverage(out):
    """per-action counts from a -coverage run: {action: (distinct, total)}"""
    cov = {}
    for m in re.finditer(r"<(\w+) line \d+, col \d+ to line \d+, col \d+ of module (\w+)>: (\d+):(\d+)", out):
        cov[m.group(1)] = (int(m.group(3)), int(m.group(4)))
    return cov


def load_known():
    """KNOWN_FINDINGS.txt: `known: property=<id> key=<substring> <text>` suppress; `fixed:` lines do not."""
    res = []
    if not os.path.exists(KNOWN):
        return res
    for line in open(KNOWN):
        line = line.strip()
        if not line.startswith("known:"):
            continue
        m = re.match(r"known:\s+property=(\S+)\s+key=(\S+)\s+(.*)", line)
        if m:
            res.append(dict(property=m.group(1), key=m.group(2), text=m.group(3)))
    return res


class Report:
    """Collects what one check found and ends the process with the contract's exit status."""

    def __init__(self, prop, level="model_checking"):
        self.prop = prop
        self.level = level
        self.t0 = time.time()
        self.violations = []      # (key, message, replay-dict)
        self.known_hits = []
        self.notes = []
        self.coverage = {}
        self.assumptions = []
        self.known = [k for k in load_known() if k["property"] == prop]

    def violation(self, key, message, replay):
        for k in self.known:
            if k["key"] in key:
                if k not in self.known_hits:
                    self.known_hits.append(k)
                return
        self.violations.append((key, message, replay))

    def note(self, s):
        self.notes.append(s)
        print("NOTE " + s)

    def finish(self):
        os.makedirs(EVIDENCE, exist_ok=True)
        os.makedirs(REPLAYS, exist_ok=True)
        wall = time.time() - self.t0
        cov = dict(self.coverage)
        cov.setdefault("samples", [])
        ev = dict(property_id=self.prop, tier=tier(), seed=seed(), level=self.level, coverage=cov,
                  assumptions=self.assumptions, wall_s=round(wall, 2), violations=len(self.violations))
        if self.notes:
            ev["notes"] = self.notes[:50]
        if self.known_hits:
            ev["known_findings"] = [k["key"] for k in self.known_hits]
        with open(os.path.join(EVIDENCE, self.prop + ".json"), "w") as f:
            json.dump(ev, f, indent=1, sort_keys=True, default=str)
        for k in self.known_hits:
            print(f"KNOWN-FINDING: property={self.prop} {k['text']} (key={k['key']})")
        shown = 0
        for key, msg, replay in self.violations[:100]:       # replay files for the first hundred; the count is reported below
            h = hashlib.sha1((key + msg).encode()).hexdigest()[:10]
            path = os.path.join(REPLAYS, f"{self.prop}-{h}.json")
            with open(path, "w") as f:
                json.dump(dict(property=self.prop, key=key, message=msg, replay=replay), f, indent=1, default=str)
            if shown < 10:
                print(f"VIOLATION property={self.prop} replay={path}")
                print("  " + msg[:600])
                shown += 1
        if self.violations:
            print(f"{self.prop}: {len(self.violations)} violation(s)")
            sys.exit(1)
        print(f"{self.prop}: held on everything explored ({tier()}, {wall:.0f}s)")
        sys.exit(0)


def main_guard(fn):
    try:
        fn()
    except ToolError as e:
        print("TOOL-ERROR " + str(e), file=sys.stderr)
        sys.exit(TOOL_ERROR)
