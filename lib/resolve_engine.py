"""C11 (Resolve.tla): exactly the requested sources are processed, outputs are named correctly.

TLC evaluates Resolve.tla on a fixed tree (three name shapes, dotted stems, dot-files, look-alikes, nested
directories, dependencies across directories) for every input list up to the bound x recursive x build/clean
and prints the expected verdict / processed set / output paths; every case is run for real and observed
through per-source marker commands and the files that appear or disappear."""
import json
import os
import random
import concurrent.futures as cf

from common import (Report, ToolError, build_harness, build_cli, run_tlc, seed, tier, workdir)
from pure_engine import parse_emitted
from pp_engine import vh_cases

TREE = {
    "": ["a.txt.txtpp", "c.txtpp", ".e.txtpp", "a.b.txtpp.c", "i.txt.txtpp.bak", "txtpp", ".txtpp", "h.txtpp.tar.gz",
         "a.txt.TXTPP", "plain.txt", "a.c", "i.bak"],
    "sub": ["b.txtpp.txt", "x.md.txtpp", ".txtpp.f"],
    "sub/deep": ["d.md.txtpp", "z.txtpp"],
    "other": ["o.txt.txtpp"],
    "mid": ["note.md"],
    "mid/leaf": ["q.txtpp"],
}
SOURCES = ["a.txt.txtpp", "c.txtpp", ".e.txtpp", "a.b.txtpp.c", "i.txt.txtpp.bak", "sub/b.txtpp.txt", "sub/x.md.txtpp",
           "sub/deep/d.md.txtpp", "sub/deep/z.txtpp", "other/o.txt.txtpp", "mid/leaf/q.txtpp"]
# include lines: (source, path written in the include directive)
INCLUDES = {"a.txt.txtpp": ["sub/b.txt"], "sub/b.txtpp.txt": ["deep/d.md"], "other/o.txt.txtpp": ["../c"]}

CFG = """SPECIFICATION Spec
CONSTANTS
  DirFilesR <- TreeFiles
  DirSubsR <- TreeSubs
  DepsOf <- TreeDeps
  MaxIn = {maxin}
  Part = {part}
  Parts = {parts}
INVARIANTS NameOK Shapes Emit
CHECK_DEADLOCK FALSE
"""


def tree_files(outputs_present):
    files = []
    for d, names in TREE.items():
        for n in names:
            p = os.path.join(d, n) if d else n
            if p in SOURCES:
                text = f"S:{p}\n" + "".join(f"TXTPP#include {i}\n" for i in INCLUDES.get(p, [])) + \
                       f"-TXTPP#run echo '{p}' >> '{{root}}/markers.log'\n"
                files.append(dict(path="t/" + p, text=text, subst=True))
            else:
                files.append(dict(path="t/" + p, text=f"keep {p}\n"))
    for o in outputs_present:
        files.append(dict(path="t/" + o, text=f"old output {o}\n"))
    return files


def check():
    rep = Report("C11", "model_checking")
    build_harness()
    build_cli()
    wd = workdir("C11")
    rng = random.Random(seed())
    quick = tier() == "quick"
    maxin, parts = (2, 10) if quick else (3, 30)
    if not quick:
        pass

    def one(i):
        cfg = os.path.join(wd, f"r-{i}.cfg")
        open(cfg, "w").write(CFG.format(maxin=maxin, part=i, parts=parts))
        return run_tlc("MCResolve.tla", cfg, f"res-{i}", workers=1, timeout=4 * 3600, java_opts="-Xss512m -Xmx3g")
    with cf.ThreadPoolExecutor(max_workers=14) as ex:
        rs = list(ex.map(one, range(parts)))
    states = sum(r["states"] for r in rs)
    cases = []
    for r in rs:
        if not r["ok"]:
            for inv in r["violated"] or ["?"]:
                rep.violation(f"spec:{inv}", f"TLC: {inv} violated in Resolve.tla", dict(out=r["out"][-4000:]))
        cases += parse_emitted(r["out"], "RCASE")
    if not cases:
        raise ToolError("TLC emitted no cases for C11")
    if not quick and len(cases) > 60000:
        cases = [c for c in cases if len(c["inputs"]) < 3] + rng.sample([c for c in cases if len(c["inputs"]) == 3], 40000)
    all_outputs = None
    # the spec's output path of every source (for pre-planting outputs in clean mode)
    out_of = {}
    for c in cases:
        for p in c["processed"]:
            pass
    for c in cases:
        if c["mode"] == "build" and c["verdict"] == "ok" and len(c["processed"]) == len(c["outputs"]):
            pass
    # derive OutputPath from single-input cases
    for c in cases:
        if len(c["processed"]) == 1 and len(c["outputs"]) == 1:
            out_of[c["processed"][0]] = c["outputs"][0]
    missing = [s for s in SOURCES if s not in out_of]
    if missing:
        raise ToolError(f"no single-source case for {missing}")
    vcases, meta = [], []
    for ci, c in enumerate(cases):
        pre_out = sorted(out_of.values()) if c["mode"] == "clean" else []
        via_cli = rng.random() < (0.02 if quick else 0.05)
        inputs = [i for i in c["inputs"]]
        # a quarter of the file inputs is given as an absolute path
        inputs = [("{root}/t/" + i if (rng.random() < 0.25 and not i.startswith(".")) else i) for i in inputs]
        if via_cli:
            args = (["clean"] if c["mode"] == "clean" else []) + ["-q"] + (["-r"] if c["rec"] else []) + inputs
            if not inputs:
                continue
            run = dict(via="cli", base="t", args=args)
        else:
            run = dict(base="t", inputs=inputs, recursive=c["rec"], mode=c["mode"], threads=3)
        vcases.append(dict(id=str(ci), files=tree_files(pre_out) + [dict(path="markers.log", text="")], report="changed", steps=[dict(run=run)]))
        meta.append((c, via_cli))
    res = vh_cases(vcases, wd, "c11", templates={})
    classes = set()
    for (c, via_cli), r in zip(meta, res):
        if r.get("skipped"):
            continue   # the runner stopped after too many hung / panicked runs (each one already reported)
        st = r["steps"][0]
        tree = st["tree"]
        ctx = f"[inputs {c['inputs']} recursive={c['rec']} mode={c['mode']}{' via CLI' if via_cli else ''}]"
        key = f"res:{json.dumps(c['inputs'])}|{c['rec']}|{c['mode']}"
        classes.add((c["verdict"], c["mode"], len(c["processed"]), c["rec"]))
        if st["verdict"] in ("panic", "hang"):
            rep.note(f"(belongs to C18) {st['verdict']} {ctx}")
            continue
        if st["verdict"] != c["verdict"]:
            rep.violation(key, f"verdict {st['verdict']}, Resolve.tla prescribes {c['verdict']} {st.get('detail', '')[:200]} {ctx}", dict(case=c, observed=st["verdict"]))
            continue
        marks = [l for l in tree.get("markers.log", {}).get("text", "").splitlines() if l]
        created = sorted(p[2:] for p, v in tree.items() if p.startswith("t/") and "text" in v and p[2:] not in [f for f in sum(([os.path.join(d, n) if d else n for n in ns] for d, ns in TREE.items()), [])] and not v.get("deleted"))
        changed_known = sorted(p[2:] for p, v in tree.items() if p.startswith("t/") and p[2:] in [os.path.join(d, n) if d else n for d, ns in TREE.items() for n in ns])
        deleted = sorted(p[2:] for p, v in tree.items() if v.get("deleted") and p.startswith("t/"))
        if c["mode"] == "build":
            if sorted(set(marks)) != sorted(c["processed"]) :
                rep.violation(key, f"sources processed {sorted(set(marks))}, Resolve.tla prescribes {sorted(c['processed'])} {ctx}", dict(case=c, marks=marks))
            elif len(marks) != len(set(marks)):
                rep.violation(key, f"a source was processed more than once: {marks} {ctx}", dict(case=c, marks=marks))
            if c["verdict"] == "ok" and (created != sorted(c["outputs"]) or changed_known):
                rep.violation(key, f"files written {created} (existing files modified: {changed_known}), Resolve.tla prescribes outputs {sorted(c['outputs'])} {ctx}",
                              dict(case=c, created=created, modified=changed_known))
        else:
            if marks:
                rep.note(f"(belongs to C07) clean executed commands {marks} {ctx}")
            if deleted != sorted(c["outputs"]) or created or changed_known:
                rep.violation(key, f"clean removed {deleted}, created {created}, modified {changed_known}; Resolve.tla prescribes removing {sorted(c['outputs'])} {ctx}",
                              dict(case=c, deleted=deleted, created=created))
    n_rt, ok_rt = random_trees(rep, wd, rng, 150 if quick else 3000, 6)
    rep.coverage.update(dict(
        states=states, transitions=states, traces_validated_against_impl=len(vcases) + ok_rt,
        random_tree_runs=n_rt, random_tree_records_validated=ok_rt,
        cases_enumerated=len(cases), cases_executed=len(vcases), distinct_classes=len(classes), max_inputs=maxin,
        exhaustive=True,
        rule="fixed tree (11 sources in 6 directories, one of them without sources on the way to a deeper one: foo.ext.txtpp, foo.txtpp.ext, foo.txtpp, dotted stems a.b.txtpp.c / i.txt.txtpp.bak, dot-file .e.txtpp; "
             "look-alikes txtpp, .txtpp, h.txtpp.tar.gz, a.txt.TXTPP, .txtpp.f; dependencies across directories) x every input list of at most "
             f"{maxin} of 32 path expressions (directories, either name, ./ and ../, absolute, duplicates, missing targets) x recursive on/off x build/clean; "
             "base directory differs from the process cwd (library) or equals it (CLI sample); observed through per-source markers and tree differences",
        samples=[cases[len(cases) // 2], cases[7]],
    ))
    rep.assumptions = ["no symbolic links (D12); path normalisation is lexical in the model"]
    from cli_engine import cli_layer
    cli_layer(rep, "C11", workdir("C11-cli"))
    rep.finish()


# ---------------------------------------------------------------------------------------------
# I->S: random trees, observed runs validated by TLC against Resolve.tla (ResolveObs.tla)
SRC_NAMES = ["a.txt.txtpp", "b.txtpp.md", "c.txtpp", ".d.txtpp", "e.f.txtpp.g", "h.i.j.txtpp", ".k.l.txtpp", "m.txtpp.n", "o.p.txtpp", "q.r.txtpp.s"]
DECOY_NAMES = ["txtpp", ".txtpp", "t.txtpp.tar.gz", "q.txtpp.r.s", "u.txt.TXTPP", "v.txt", "w.txtpp~", "x.txtpp_y", ".txtpp.z", "readme"]


def out_name(n):
    parts = n.split(".")
    if parts[-1] == "txtpp":
        return ".".join(parts[:-1])
    assert parts[-2] == "txtpp", n
    return ".".join(parts[:-2] + parts[-1:])


def random_tree(rng):
    dirs = [""]
    for _ in range(rng.randint(1, 3)):
        parent = rng.choice(dirs)
        if parent.count("/") >= 2 and parent:
            parent = ""
        name = f"d{len(dirs)}"
        dirs.append((parent + "/" if parent else "") + name)
    tree = {}
    sources = []
    for d in dirs:
        names = rng.sample(SRC_NAMES, rng.randint(0, 3))
        # no two sources with the same output in one directory (D11)
        seen, keep = set(), []
        for n in names:
            if out_name(n) not in seen:
                seen.add(out_name(n))
                keep.append(n)
        decoys = [x for x in rng.sample(DECOY_NAMES, rng.randint(0, 3)) if x not in seen]
        tree[d] = dict(files=keep + decoys, subs=[x.rsplit("/", 1)[-1] for x in dirs if x and (x.rsplit("/", 1)[0] if "/" in x else "") == d])
        sources += [(d + "/" if d else "") + n for n in keep]
    deps = {}
    order = list(sources)
    rng.shuffle(order)
    for i, s in enumerate(order):
        later = order[i + 1:]
        deps[s] = sorted(rng.sample(later, min(len(later), rng.choice([0, 0, 1, 1, 2]))))
    return dirs, tree, sources, deps


def rel(from_dir, to_path):
    return os.path.relpath(to_path, from_dir or ".")


def random_trees(rep, wd, rng, n_trees, runs_per_tree):
    from common import run_tlc, SPEC
    import re
    vcases, meta = [], []
    for ti in range(n_trees):
        dirs, tree, sources, deps = random_tree(rng)
        if not sources:
            continue
        outputs = {s: ((os.path.dirname(s) + "/") if "/" in s else "") + out_name(os.path.basename(s)) for s in sources}
        base_files = []
        for d in dirs:
            base_files.append(dict(path="t/" + (d + "/" if d else "") + ".keepdir", text=""))
            for n in tree[d]["files"]:
                p = (d + "/" if d else "") + n
                if p in sources:
                    text = f"S:{p}\n" + "".join(f"TXTPP#include {rel(os.path.dirname(p), outputs[x])}\n" for x in deps[p]) + \
                           f"-TXTPP#run echo '{p}' >> '{{root}}/markers.log'\n"
                    base_files.append(dict(path="t/" + p, text=text, subst=True))
                else:
                    base_files.append(dict(path="t/" + p, text=f"keep {p}\n"))
        for _ in range(runs_per_tree):
            mode = rng.choice(["build", "build", "clean"])
            rec = rng.random() < 0.5
            inputs = []
            for _ in range(rng.randint(1, 3)):
                k = rng.random()
                if k < 0.3:
                    d = rng.choice(dirs)
                    inputs.append(rng.choice([d or ".", "./" + d if d else "./", (d + "/") if d else "."]))
                elif k < 0.55:
                    inputs.append(rng.choice(sources))
                elif k < 0.8:
                    s = rng.choice(sources)
                    inputs.append(rng.choice([outputs[s], "./" + outputs[s]]))
                elif k < 0.9 and len(dirs) > 1:
                    s = rng.choice(sources)
                    d = rng.choice(dirs[1:])
                    inputs.append(d + "/" + "/".join([".."] * (d.count("/") + 1)) + "/" + s)
                else:
                    inputs.append(rng.choice(["missing.txt", "nope.txtpp", "txtpp", "v.txt", "d1/none.md"]))
            files = list(base_files) + [dict(path="markers.log", text="")]
            pre_out = sorted(set(outputs.values())) if mode == "clean" else []
            files += [dict(path="t/" + o, text=f"old {o}\n") for o in pre_out]
            run = dict(base="t", inputs=inputs, recursive=rec, mode=mode, threads=2)
            vcases.append(dict(id=f"rt{len(vcases)}", files=files, report="changed", steps=[dict(run=run)]))
            meta.append((ti, dirs, tree, deps, inputs, rec, mode, pre_out, outputs))
    res = vh_cases(vcases, wd, "rtrees", templates={})
    recs = []
    last_tree = None
    for (ti, dirs, tree, deps, inputs, rec, mode, pre_out, outputs), r in zip(meta, res):
        if r.get("skipped"):
            continue
        st = r["steps"][0]
        if st["verdict"] not in ("ok", "err"):
            continue
        key = (ti, mode)
        if key != last_tree:
            last_tree = key
            drecs = []
            for d in dirs:
                fs = list(tree[d]["files"]) + [".keepdir"] + [os.path.basename(o) for o in pre_out if (os.path.dirname(o) == d)]
                drecs.append(dict(path=d, files=sorted(set(fs)), subs=tree[d]["subs"]))
            recs.append(dict(event="tree", dirs=drecs, deps=[dict(src=s, on=deps[s]) for s in sorted(deps)]))
        t = st["tree"]
        marks = sorted(set(x for x in t.get("markers.log", {}).get("text", "").splitlines() if x))
        known = {(d + "/" if d else "") + n for d in dirs for n in tree[d]["files"]}
        created = sorted(p[2:] for p, v in t.items() if p.startswith("t/") and "text" in v and p[2:] not in known and p[2:] not in pre_out)
        deleted = sorted(p[2:] for p, v in t.items() if v.get("deleted") and p.startswith("t/"))
        if mode == "build":
            processed, outs = marks, created
        else:
            outs = deleted
            processed = sorted(s for s, o in outputs.items() if o in deleted)
        recs.append(dict(event="run", inputs=inputs, rec=rec, mode=mode, verdict=st["verdict"], processed=processed, outputs=outs))
    chunks, cur = [], []
    for e in recs:
        if e["event"] == "tree" and len(cur) > 400:
            chunks.append(cur)
            cur = []
        cur.append(e)
    if cur:
        chunks.append(cur)

    cfg = os.path.join(wd, "robs.cfg")
    open(cfg, "w").write("SPECIFICATION TraceSpec\nPOSTCONDITION TraceAccepted\nCHECK_DEADLOCK FALSE\n")

    def val(ic):
        i, chunk = ic
        # a chunk must start with a tree record
        tf = os.path.join(wd, f"robs-{i}.ndjson")
        with open(tf, "w") as f:
            for e in chunk:
                f.write(json.dumps(e) + "\n")
        return chunk, run_tlc("ResolveObs.tla", cfg, f"robs-{i}", workers=1, timeout=1800, env_extra={"TRACE": tf},
                              java_opts="-Xss1g -Xmx2g -Dtlc2.tool.queue.IStateQueue=StateDeque", check=False)
    with cf.ThreadPoolExecutor(max_workers=12) as ex:
        vals = list(ex.map(val, enumerate(chunks)))
    ok = 0
    for chunk, r in vals:
        if r["ok"]:
            ok += len(chunk)
            continue
        m = re.search(r'TRACE REJECTED at event",\s*(\d+)', r["out"])
        if not m:
            raise ToolError("ResolveObs validation broke:\n" + r["out"][-3000:])
        k = int(m.group(1))
        ok += k - 1
        j = k - 1
        while j > 0 and chunk[j]["event"] != "tree":
            j -= 1
        rep.violation(f"rtree:{json.dumps(chunk[k - 1].get('inputs'))}", f"observed run {chunk[k - 1]} is not what Resolve.tla prescribes for the tree {chunk[j]}",
                      dict(tree=chunk[j], run=chunk[k - 1]))
    return len(vcases), ok
