"""C15 (Grammar.tla) and C14 (TagInject.tla): bounded-exhaustive tables from TLC compared with the
real functions (S->I), and observations of the real functions on larger random inputs validated by
TLC (I->S)."""
import ast
import json
import os
import random
import subprocess
import concurrent.futures as cf

from common import (SPEC, VH, Report, ToolError, build_harness, run_tlc, seed, tier, workdir)

NB, EA = " ", "é"


def render(s):
    return s.replace("^", NB).replace("~", EA)


def unrender(s):
    return s.replace(NB, "^").replace(EA, "~")


def parse_emitted(out, tag):
    """lines `<<"TAG", "json">>` printed by TLC"""
    res = []
    pre = f'<<"{tag}", '
    for line in out.splitlines():
        if line.startswith(pre) and line.endswith(">>"):
            body = line[len(pre):-2]
            res.append(json.loads(ast.literal_eval(body)))
    return res


def vh_pure(reqs, wd, name):
    inp = os.path.join(wd, name + ".in")
    outp = os.path.join(wd, name + ".out")
    with open(inp, "w") as f:
        for r in reqs:
            f.write(json.dumps(r) + "\n")
    r = subprocess.run([VH, "pure", inp, outp], capture_output=True, text=True)
    if r.returncode != 0:
        raise ToolError("vh pure failed: " + r.stderr[-2000:])
    res = [json.loads(x) for x in open(outp)]
    if len(res) != len(reqs):
        raise ToolError("vh pure: answer count mismatch")
    return res


def run_parts(module, cfg_tmpl, parts, name, wd, timeout=3600):
    """run `parts` TLC processes in parallel, each with Part = i"""
    def one(i):
        cfg = os.path.join(wd, f"{name}-{i}.cfg")
        open(cfg, "w").write(cfg_tmpl.replace("{part}", str(i)).replace("{parts}", str(parts)))
        return run_tlc(module, cfg, f"{name}-{i}", workers=1, timeout=timeout, java_opts="-Xss256m -Xmx3g", extra=("-maxSetSize", "4000000"))
    with cf.ThreadPoolExecutor(max_workers=14) as ex:
        return list(ex.map(one, range(parts)))


# ------------------------------------------------------------------------------------------ C15
GRAMMAR_CFG = """SPECIFICATION Spec
CONSTANTS
  MaxTok = {maxtok}
  MaxCand = {maxcand}
  EmitTables = TRUE
  Part = {{part}}
  Parts = {{parts}}
INVARIANTS DetectOK ContOK EmitDetect EmitCont
CHECK_DEADLOCK FALSE
"""

TOKENS = [" ", "\t", "^", "-", "//", "TXTPP#", "TXTPP", "#", "include", "after", "run", "temp", "tag",
          "write", "runx", "x", "~", "  ", "/* ", "a b"]


def same_dir(exp, got):
    if got.get("panic") is not None:
        return False
    if exp["dir"] != got["dir"]:
        return False
    if not exp["dir"]:
        return True
    return (render(exp["ws"]) == got["ws"] and render(exp["pfx"]) == got["pfx"] and exp["type"] == got["type"]
            and [render(a) for a in exp["args"]] == got["args"])


def check_c15():
    rep = Report("C15", "model_checking")
    build_harness()
    wd = workdir("C15")
    rng = random.Random(seed())
    quick = tier() == "quick"
    maxtok, maxcand, parts = (4, 4, 14) if quick else (5, 4, 56)
    rs = run_parts("MCGrammar.tla", GRAMMAR_CFG.format(maxtok=maxtok, maxcand=maxcand), parts, "gram", wd,
                   timeout=3 * 3600)
    states = sum(r["states"] for r in rs)
    for r in rs:
        if not r["ok"]:
            for inv in r["violated"] or ["?"]:
                rep.violation(f"spec:{inv}", f"TLC: {inv} violated in Grammar.tla: the operational and the declarative "
                              f"grammar disagree", dict(out=r["out"][-6000:]))
    det, cont = [], []
    for r in rs:
        det += parse_emitted(r["out"], "DETECT")
        cont += parse_emitted(r["out"], "CONT")
    if not det or not cont:
        raise ToolError("TLC emitted no tables for C15")
    # S->I: detection table
    got = vh_pure([dict(op="detect", line=render(c["line"])) for c in det], wd, "detect")
    n_dir = 0
    for c, g in zip(det, got):
        n_dir += 1 if c["res"]["dir"] else 0
        if not same_dir(c["res"], g):
            rep.violation(f"detect:{c['line']}", f"detect_from({render(c['line'])!r}) = {g}, Grammar.tla says {c['res']}",
                          dict(op="detect", line=c["line"], expected=c["res"], observed=g))
    # S->I: continuation table
    reqs = [dict(op="addline", dline=render(c["dline"]), cands=[render(r["c"]) for r in c["rows"]]) for c in cont]
    got = vh_pure(reqs, wd, "cont")
    pairs = amb = n_ok = 0
    for c, g in zip(cont, got):
        if "rows" not in g:
            rep.violation(f"cont:{c['dline']}", f"add_line driver failed on {c['dline']!r}: {g}", dict(c=c["dline"], got=g))
            continue
        for row, o in zip(c["rows"], g["rows"]):
            pairs += 1
            if row["amb"]:
                amb += 1
                continue
            e = row["r"]
            n_ok += 1 if e["ok"] else 0
            bad = e["ok"] != o["ok"] or (e["ok"] and render(e["arg"]) != o["arg"]) or (not e["ok"] and o.get("grew"))
            if bad:
                rep.violation(f"cont:{c['dline']}|{row['c']}",
                              f"add_line({render(c['dline'])!r}, {render(row['c'])!r}) = {o}, Grammar.tla says {e}",
                              dict(op="addline", dline=c["dline"], cand=row["c"], expected=e, observed=o))
    # I->S: longer random lines, recorded from the code, validated by TLC
    n_obs = 6000 if quick else 60000
    lines = []
    for _ in range(n_obs):
        k = rng.randint(5, 12)
        toks = [rng.choice(TOKENS) for _ in range(k)]
        if rng.random() < 0.7:  # make directive lines common
            toks.insert(rng.randint(0, min(3, len(toks))), "TXTPP#" + rng.choice(["run", "", "tag", "write", "include", "temp", "after"]) + rng.choice([" ", "", "\t"]))
        lines.append("".join(toks))
    got = vh_pure([dict(op="detect", line=render(x)) for x in lines], wd, "obs-detect")
    recs = []
    dirlines = []
    for x, g in zip(lines, got):
        if g.get("panic") is not None:
            rep.violation(f"detect:{x}", f"detect_from panicked on {render(x)!r}: {g['panic']}", dict(op="detect", line=x))
            continue
        res = dict(g)
        if res["dir"]:
            res = dict(dir=True, ws=unrender(g["ws"]), pfx=unrender(g["pfx"]), type=g["type"], args=[unrender(a) for a in g["args"]])
            if g["type"] in ("run", "", "temp", "write"):
                dirlines.append(x)
        recs.append(dict(op="detect", line=x, res=res))
    reqs = []
    for d in dirlines[: n_obs // 4]:
        dd = got[lines.index(d)]
        ws, pfx = unrender(dd["ws"]), unrender(dd["pfx"])
        cands = []
        for _ in range(6):
            form = rng.random()
            tail = "".join(rng.choice(TOKENS) for _ in range(rng.randint(0, 4)))
            if form < 0.3:
                c = ws + pfx + tail
            elif form < 0.55:
                c = ws + " " * (len(render(pfx).encode()) + rng.choice([0, 0, 0, 1, -1])) + tail
            elif form < 0.7:
                c = ws + pfx.rstrip(" \t^") + rng.choice(["", "", " ", "x"])
            elif form < 0.85:
                c = rng.choice(["", " ", "\t"]) + ws + pfx + tail
            else:
                c = tail
            cands.append(c)
        reqs.append(dict(op="addline", dline=render(d), cands=[render(c) for c in cands], _d=d, _c=cands))
    got2 = vh_pure([{k: v for k, v in r.items() if not k.startswith("_")} for r in reqs], wd, "obs-cont")
    for r, g in zip(reqs, got2):
        for c, o in zip(r["_c"], g.get("rows", [])):
            res = dict(ok=o["ok"], arg=unrender(o.get("arg", "")))
            recs.append(dict(op="addline", dline=r["_d"], cand=c, res=res))
    chunks = [recs[i:i + 1500] for i in range(0, len(recs), 1500)]

    def val(ic):
        i, chunk = ic
        tf = os.path.join(wd, f"obs-{i}.ndjson")
        with open(tf, "w") as f:
            for e in chunk:
                f.write(json.dumps(e) + "\n")
        r = run_tlc("GrammarTrace.tla", os.path.join(SPEC, "GrammarTrace.cfg"), f"gt-{i}", workers=1, timeout=1800,
                    env_extra={"TRACE": tf}, java_opts="-Xss1g -Xmx2g -Dtlc2.tool.queue.IStateQueue=StateDeque", check=False)
        return chunk, r
    with cf.ThreadPoolExecutor(max_workers=12) as ex:
        vals = list(ex.map(val, enumerate(chunks)))
    validated = 0
    for chunk, r in vals:
        if r["ok"]:
            validated += len(chunk)
            continue
        import re
        m = re.search(r'TRACE REJECTED at event",\s*(\d+)', r["out"])
        if not m:
            raise ToolError("GrammarTrace validation broke:\n" + r["out"][-3000:])
        e = chunk[int(m.group(1)) - 1]
        validated += int(m.group(1)) - 1
        rep.violation(f"obs:{e.get('line', e.get('dline'))}|{e.get('cand', '')}",
                      f"observation of the real code rejected by Grammar.tla: {e}", e)
    rep.coverage.update(dict(
        states=states, transitions=states,
        traces_validated_against_impl=validated,
        detect_lines_exhaustive=len(det), directive_lines_among_them=n_dir,
        continuation_pairs_exhaustive=pairs, continuation_pairs_accepting=n_ok, pairs_outside_domain_D5=amb,
        token_bound=maxtok, candidate_token_bound=maxcand,
        exhaustive=True,
        rule="every line over the 17-token alphabet of C15 with at most MaxTok tokens, every (directive line, candidate) "
             "pair over 288 directive lines x all candidates of at most MaxCand tokens (with and without the directive's "
             "indentation); plus random 5-12 token lines and shaped candidates recorded from the code and validated by TLC",
        samples=[det[len(det) // 3], dict(dline=cont[5]["dline"], row=cont[5]["rows"][7]), recs[-1]],
    ))
    rep.assumptions = ["placeholder characters ^ (U+00A0) and ~ (U+00E9) stand for all non-ASCII whitespace / letters",
                       "pairs where the character and byte length of a non-ASCII prefix disagree on the spaces form are outside the domain (D5)"]
    rep.finish()


# ------------------------------------------------------------------------------------------ C14
TAG_CFG = """SPECIFICATION Spec
CONSTANTS
  NameSet = {names}
  MaxTags = {maxtags}
  LineAlpha = {alpha}
  MaxLine = {maxline}
  EmitTables = TRUE
  Part = {{part}}
  Parts = {{parts}}
INVARIANTS StoreOK InjectOK Emit
CHECK_DEADLOCK FALSE
"""


def tla_set(xs):
    return "{" + ", ".join(json.dumps(x) for x in xs) + "}"


def check_c14():
    rep = Report("C14", "model_checking")
    build_harness()
    wd = workdir("C14")
    rng = random.Random(seed())
    quick = tier() == "quick"
    if quick:
        names, maxtags, alpha, maxline, parts = ["a", "b", "ab", "ba", "aa"], 2, ["a", "b", "x"], 4, 14
    else:
        names, maxtags, alpha, maxline, parts = ["a", "b", "ab", "ba", "aa", "abb"], 3, ["a", "b", "x"], 4, 56
    # two bounded spaces: many names / two tags / longer lines, and few names / three tags / short lines (a third create
    # while two tags are stored: equal, prefix-related in either direction, unrelated)
    configs = [(names, maxtags, alpha, maxline, parts), (["a", "ab", "b"], 3, ["a", "b"], 3 if quick else 4, 8)]
    states = 0
    tables = []
    for ci, (nm, mt, al, ml, pt) in enumerate(configs):
        rs = run_parts("MCTagInject.tla", TAG_CFG.format(names=tla_set(nm), maxtags=mt, alpha=tla_set(al), maxline=ml), pt, f"tag{ci}", wd, timeout=6 * 3600)
        states += sum(r["states"] for r in rs)
        tset = []
        for r in rs:
            if not r["ok"]:
                for inv in r["violated"] or ["?"]:
                    rep.violation(f"spec:{inv}", f"TLC: {inv} violated in TagInject.tla", dict(out=r["out"][-6000:]))
            tset += parse_emitted(r["out"], "TAGS")
        if not tset:
            raise ToolError("TLC emitted no tables for C14")
        # the probe line is JoinS(SetToSeq(NameSet)): recover it from a case without stored tags
        probe = "|".join(sorted(nm))
        for t in tset:
            if not t["setup"]:
                probe = t["cases"][0]["probe"]
                break
        for t in tset:
            t["_probe"] = probe
        tables += tset
    reqs, meta = [], []
    reps = 3 if quick else 2
    for t in tables:
        setup = [[s[0], s[1]] for s in t["setup"]]
        for c in t["cases"]:
            steps = setup + [["inject", c["line"], c["le"]], ["has"], ["inject", t["_probe"], c["le"]], ["has"]]
            for _ in range(reps):
                reqs.append(dict(op="tags", steps=steps))
                meta.append((t, c))
    cases = 0
    nontrivial = set()
    # two separate processes: the hash seeds differ between processes as well as between maps
    half = len(reqs) // 2
    got = vh_pure(reqs[:half], wd, "tags-a") + vh_pure(reqs[half:], wd, "tags-b")
    for (t, c), g in zip(meta, got):
        cases += 1
        exp = [s[2] for s in t["setup"]] + [c["out"], c["has"], c["probe"], c["has2"]]
        obs = g.get("out")
        if obs != exp:
            key = f"tags:{json.dumps(t['setup'])}|{c['line']}|{c['le']!r}"
            rep.violation(key, f"TagState after {t['setup']} on line {c['line']!r}: observed {obs} (panic={g.get('panic')}), "
                          f"TagInject.tla says {exp}", dict(setup=t["setup"], case=c, observed=g))
        if c["out"] != c["line"]:
            nontrivial.add((json.dumps(t["setup"]), c["line"], c["le"]))
    # I->S: larger random cases recorded from the code, validated by TLC against TagInject.tla
    n_obs = 1500 if quick else 20000
    alphabet = ["a", "b", "c"]
    recs_all = []
    contents = ["", "a", "cab", "b\n", "a\nb", "x\r\ny\r\n", "\n", "abc\nabc", "q\r\n\r\nz"]
    sess = []
    for _ in range(n_obs):
        steps = []
        for _ in range(rng.randint(1, 4)):
            nm = "".join(rng.choice(alphabet) for _ in range(rng.randint(1, 3)))
            steps.append(["create", nm])
            if rng.random() < 0.85:
                steps.append(["store", rng.choice(contents)])
        for _ in range(rng.randint(1, 3)):
            ln = "".join(rng.choice(alphabet + ["x", " "]) for _ in range(rng.randint(0, 10)))
            steps.append(["inject", ln, rng.choice(["\n", "\r\n"])])
            steps.append(["has"])
        sess.append(steps)
    got = vh_pure([dict(op="tags", steps=s) for s in sess], wd, "tags-obs")
    for steps, g in zip(sess, got):
        if g.get("panic") is not None or "out" not in g:
            rep.violation(f"obs:{json.dumps(steps)}", f"TagState panicked on {steps}: {g}", dict(steps=steps, observed=g))
            continue
        recs_all.append(dict(op="new"))
        for s, o in zip(steps, g["out"]):
            if s[0] == "create":
                recs_all.append(dict(op="create", name=s[1], ok=o))
            elif s[0] == "store":
                recs_all.append(dict(op="store", text=s[1], ok=o))
            elif s[0] == "inject":
                recs_all.append(dict(op="inject", line=s[1], le=s[2], out=o))
            else:
                recs_all.append(dict(op="has", has=o))
    # cut into chunks at "new" boundaries
    chunks, cur = [], []
    for e in recs_all:
        if e["op"] == "new" and len(cur) > 1200:
            chunks.append(cur)
            cur = []
        cur.append(e)
    if cur:
        chunks.append(cur)

    def val(ic):
        i, chunk = ic
        tf = os.path.join(wd, f"obs-{i}.ndjson")
        with open(tf, "w") as f:
            for e in chunk:
                f.write(json.dumps(e) + "\n")
        r = run_tlc("TagTrace.tla", os.path.join(SPEC, "TagTrace.cfg"), f"tt-{i}", workers=1, timeout=1800,
                    env_extra={"TRACE": tf}, java_opts="-Xss1g -Xmx2g -Dtlc2.tool.queue.IStateQueue=StateDeque", check=False)
        return chunk, r
    with cf.ThreadPoolExecutor(max_workers=12) as ex:
        vals = list(ex.map(val, enumerate(chunks)))
    validated = 0
    import re
    for chunk, r in vals:
        if r["ok"]:
            validated += len(chunk)
            continue
        m = re.search(r'TRACE REJECTED at event",\s*(\d+)', r["out"])
        if not m:
            raise ToolError("TagTrace validation broke:\n" + r["out"][-3000:])
        k = int(m.group(1))
        validated += k - 1
        # the session the rejected call belongs to
        j = k - 1
        while j > 0 and chunk[j]["op"] != "new":
            j -= 1
        rep.violation(f"obs:{json.dumps(chunk[j:k])[:300]}",
                      f"call of the real TagState rejected by TagInject.tla: {chunk[k - 1]} after {chunk[j:k - 1]}",
                      dict(session=chunk[j:k]))
    # whole files exercising create / store / use / error orders (PpCore.tla on structured tag families, real builds compared)
    import pp_engine
    fam = [x for x in pp_engine.structured_sources(rng, 10 ** 9) if "TXTPP#tag" in pp_engine.MCPP_CATALOGUE[x[0] - 1] or "TXTPP#tag" in pp_engine.MCPP_CATALOGUE[x[1] - 1]]
    if quick:
        fam = rng.sample(fam, min(len(fam), 2500))
    st2, pcases = pp_engine.spec_run(rep, "C14", wd, 1, [], extra=fam)
    states += st2
    vcs, vmeta = [], []
    for c in pcases:
        le = rng.choice(["\n", "\r\n"])
        vcs.append(pp_engine.make_case("tagfile", c["src"], le, True))
        vmeta.append((c, le))
    whole = 0
    for (c, le), r in zip(vmeta, pp_engine.vh_cases(vcs, wd, "tagfiles")):
        if r.get("skipped"):
            continue
        whole += 1
        for msg in pp_engine.compare_build(pp_engine.expected_of(c, le, True), r["steps"][0]):
            rep.violation(f"tagfile:{json.dumps(c['src'])}", f"{msg} [whole file with tags: {c['src']} le={le!r}]", dict(src=c["src"], le=le))
    rep.coverage.update(dict(
        states=states, transitions=states,
        traces_validated_against_impl=validated + whole, whole_files_with_tags=whole,
        setups_exhaustive=len(tables), cases_executed=cases, repetitions_per_case=reps,
        cases_with_a_substitution=len(nontrivial),
        exhaustive=True,
        rule=f"every setup of at most {maxtags} create/store steps over names {names} (incl. repeated, prefix-related and "
             f"overlapping names, one create without store) x every line over {alpha} up to length {maxline} x LF/CRLF, each "
             f"executed {reps}x in fresh stores in two processes; plus random sessions (names up to 3 chars over a,b,c; up to 4 "
             f"tags; lines up to 10 chars) recorded from the code and validated by TLC",
        samples=[dict(setup=tables[len(tables) // 2]["setup"], case=tables[len(tables) // 2]["cases"][17]), recs_all[:8]],
    ))
    rep.assumptions = ["hash-order independence is sampled by fresh maps (new random keys per map and per process) and proved "
                       "at the design level by TLC over all permutations (Deterministic)"]
    rep.finish()
