#!/bin/sh
# usage: seedtest.sh <worktree> <seed-name> <property> [more properties...]
# 1. confirms the seeded change in its scratch worktree (tests pass, demo fails with / passes without the patch)
# 2. stores it under /verif/seeded/<seed-name>/
# 3. applies it to /repo, runs the quick checks of the given properties, and reverts /repo
WT=$1; NAME=$2; shift 2
OUT=/verif/seeded/$NAME
mkdir -p $OUT
cp $WT/OUT/patch.diff $WT/OUT/README.md $OUT/ 2>/dev/null
cp $WT/OUT/demo.sh $OUT/ 2>/dev/null; cp $WT/OUT/demo.rs $OUT/ 2>/dev/null
LOG=$OUT/confirm.log; echo "--- $(date -u +%FT%TZ)" >> $LOG
cd $WT || exit 2
git checkout -q -- src 2>/dev/null; git apply OUT/patch.diff || { echo "patch does not apply" | tee -a $LOG; exit 2; }
cargo build --offline -q 2>>$LOG && cargo build --offline -q --features verif 2>>$LOG || { echo "BUILD FAILS with patch" | tee -a $LOG; }
T=$(cargo test --workspace --offline 2>&1 | grep -E '^test result' | tr '\n' ' ')
echo "tests with patch: $T" | tee -a $LOG
bash OUT/demo.sh > $OUT/demo-with-patch.log 2>&1; W=$?
git apply -R OUT/patch.diff; cargo build --offline -q 2>>$LOG
bash OUT/demo.sh > $OUT/demo-without-patch.log 2>&1; WO=$?
git apply OUT/patch.diff
echo "demo exit with patch: $W   without patch: $WO" | tee -a $LOG
rm -rf $WT/OUT/work
# run the checks against the patched /repo
cd /repo && git status --short | grep -q . && { echo "/repo not clean"; exit 2; }
git apply $OUT/patch.diff || exit 2
for P in "$@"; do
  ( cd /verif && ./check $P --tier quick > $OUT/check-$P.log 2>&1; echo "check $P exit $?" | tee -a $LOG; grep -m2 -A1 '^VIOLATION' $OUT/check-$P.log | cut -c1-500 | tee -a $LOG )
done
cd /repo && git checkout -- . && git status --short
