"""C17: the contract of run commands (RunTrace.tla on top of PpCore.tla).

A probe shell records argv, working directory and TXTPP_FILE of every invocation during real runs
(library and CLI, sources at depth 0..3, base directory equal to / ancestor of / unrelated to the process
cwd, relative and absolute base, default and overridden shell); TLC validates every recorded invocation,
the verdict and the outputs against PpCore.tla.  With the default shell the commands themselves report
`pwd -P` and $TXTPP_FILE into the output."""
import itertools
import json
import os
import random
import re
import concurrent.futures as cf

from common import (SPEC, Report, ToolError, build_harness, build_cli, run_tlc, seed, tier, workdir)
from pp_engine import vh_cases

PROBE = """#!/bin/sh
# probe shell: log the invocation, then behave like `sh -c "<last argument>"`
n=$#
log="{root}/probe.log"
US=$(printf '\\037'); RS=$(printf '\\036')
rec="N=$n"
for a in "$@"; do rec="$rec$US$a"; done
rec="$rec$RS$(pwd -P)$RS${TXTPP_FILE-<unset>}"
printf '%s\\n' "$rec" >> "$log"
for last in "$@"; do :; done
exec sh -c "$last"
"""

DIRS = ["", "d1", "d1/d2", "d1/d2/d3"]

BODIES = [
    ["x", "-TXTPP#run echo a", "y"],
    ["-TXTPP#run echo", "-  b   c", "-d", "", "tail"],
    ["  // TXTPP#run echo q", "  //   r", "z"],
    ["-TXTPP#run true", "-TXTPP#", "-TXTPP#run echo one two", "end"],
    ["t", "-TXTPP#run echo a", "-TXTPP#run false"],
    ["-TXTPP#run false", "-", "-TXTPP#run echo never"],
    ["-TXTPP#tag T", "-TXTPP#run echo in tag", "", "<T>"],
    ["-TXTPP#run"],
    ["-TXTPP#run echo a\t b", "-\tc"],
]


def src_path(depth, i):
    d = DIRS[depth]
    return (d + "/" if d else "") + f"s{i}.txt.txtpp"


def check():
    rep = Report("C17", "model_checking")
    build_harness()
    build_cli()
    wd = workdir("C17")
    rng = random.Random(seed())
    quick = tier() == "quick"
    cases, meta = [], []
    # (a) probe shell: depth x body x configuration
    configs = [
        dict(name="lib cwd unrelated, absolute base", run=dict(base="b")),
        dict(name="lib cwd = base, base '.'", run=dict(base_raw=".", isolate=True, chdir="b")),
        dict(name="lib cwd below base, base '..'", run=dict(base_raw="..", isolate=True, chdir="b/d1")),
        dict(name="lib cwd below base, base '../..'", run=dict(base_raw="../..", isolate=True, chdir="b/d1/d2")),
        dict(name="cli in base", run=dict(via="cli", base="b")),
    ]
    pres = [["P1"], ["P1", "-x"], []]
    combos = list(itertools.product(range(len(BODIES)), range(4), range(len(configs)), range(len(pres))))
    if quick:
        combos = [c for c in combos if c[3] == 0 or rng.random() < 0.3]
    for bi, depth, ci, pi in combos:
        pre = pres[pi]
        cfg = configs[ci]
        # two sources in one run: the body under test and a sibling at another depth
        srcs = [(src_path(depth, 0), BODIES[bi]), (src_path((depth + 2) % 4, 1), BODIES[(bi + 3) % len(BODIES)])]
        files = [dict(path="probe.sh", text=PROBE, subst=True, mode=0o755), dict(path="probe.log", text="")]
        for d in DIRS[1:]:
            files.append(dict(path=f"b/{d}/.keep", text=""))
        for p, body in srcs:
            files.append(dict(path="b/" + p, text="\n".join(body) + "\n"))
        shell = "sh {root}/probe.sh" + "".join(" " + x for x in pre)
        run = dict(cfg["run"])
        inputs = [p for p, _ in srcs]
        if run.get("via") == "cli":
            run["args"] = ["-q", "-j", "2", "-s", shell] + [p[:-6] for p in inputs]
        else:
            run.update(inputs=inputs, shell=shell, threads=2)
        cases.append(dict(id=f"p{len(cases)}", files=files, report="changed", steps=[dict(run=run)]))
        meta.append(("probe", srcs, pre, cfg["name"]))
    # (b) default shell: the command reports where it runs and what TXTPP_FILE says
    for depth in range(4):
        for ci, cfg in enumerate(configs):
            p = src_path(depth, 0)
            body = ["-TXTPP#run pwd -P", "", "-TXTPP#run printf '%s\\n' \"$TXTPP_FILE\"", "", "-TXTPP#run echo \"[$0]\""]
            files = [dict(path="b/" + p, text="\n".join(body) + "\n")] + [dict(path=f"b/{d}/.keep", text="") for d in DIRS[1:]]
            run = dict(cfg["run"])
            if run.get("via") == "cli":
                run["args"] = ["-q", p]
            else:
                run.update(inputs=[p], threads=1)
            cases.append(dict(id=f"d{len(cases)}", files=files, report="changed", steps=[dict(run=run)]))
            meta.append(("default", p, depth, cfg["name"]))
    # (e) the same command text several times in one directory: every execution is a fresh process for its own source
    for cfg in configs[:1] + configs[4:]:
        for threads in (1, 3):
            d = "d1/d2"
            srcs = [(f"{d}/same{i}.txt.txtpp", BODIES[0]) for i in range(3)]
            files = [dict(path="probe.sh", text=PROBE, subst=True, mode=0o755), dict(path="probe.log", text="")]
            files += [dict(path="b/" + p, text="\n".join(body) + "\n") for p, body in srcs]
            shell = "sh {root}/probe.sh P1"
            run = dict(cfg["run"])
            if run.get("via") == "cli":
                run["args"] = ["-q", "-j", str(threads), "-s", shell] + [p[:-6] for p, _ in srcs]
            else:
                run.update(inputs=[p for p, _ in srcs], shell=shell, threads=threads)
            cases.append(dict(id=f"s{len(cases)}", files=files, report="changed", steps=[dict(run=run)]))
            meta.append(("probe", srcs, ["P1"], cfg["name"] + f", same command in one directory, {threads} thread(s)"))
            # default shell: each output names its own source
            files = [dict(path=f"b/{d}/own{i}.txt.txtpp", text="-TXTPP#run printf '%s\\n' \"$TXTPP_FILE\"\n") for i in range(3)]
            run = dict(cfg["run"])
            if run.get("via") == "cli":
                run["args"] = ["-q", "-j", str(threads), d]
            else:
                run.update(inputs=[d], threads=threads)
            cases.append(dict(id=f"o{len(cases)}", files=files, report="changed", steps=[dict(run=run)]))
            meta.append(("own", d, threads, cfg["name"]))
    # (f) one source running the same command twice with a state change in between; a command that fails the second time
    for via in ("lib", "cli"):
        files = [dict(path="b/st.txt.txtpp", text="// TXTPP#temp t.tmp\n// one\n-TXTPP#run cat t.tmp\n\n// TXTPP#temp t.tmp\n// two\n-TXTPP#run cat t.tmp\n\nend\n")]
        run = dict(base="b", inputs=["st.txt"], threads=2) if via == "lib" else dict(via="cli", base="b", args=["-q", "st.txt"])
        cases.append(dict(id=f"t{len(cases)}", files=files, report="changed", steps=[dict(run=run)]))
        meta.append(("stateful", via, "", ""))
        files = [dict(path="b/lk.txt.txtpp", text="-TXTPP#run test ! -e lock && touch lock && echo got\n\n-TXTPP#run test ! -e lock && touch lock && echo got\n\nend\n")]
        run = dict(base="b", inputs=["lk.txt"], threads=2) if via == "lib" else dict(via="cli", base="b", args=["-q", "lk.txt"])
        cases.append(dict(id=f"l{len(cases)}", files=files, report="changed", steps=[dict(run=run)]))
        meta.append(("failsecond", via, "", ""))
    # (c) exit codes
    for code in (0, 1, 3, 127, 255, "kill -9 $$", "kill -TERM $$", "exec sh -c 'kill -SEGV $$'"):
        tail = f"exit {code}" if isinstance(code, int) else code
        files = [dict(path="b/s.txt.txtpp", text=f"a\n-TXTPP#run echo out; {tail}\nb\n")]
        for via in ("lib", "cli"):
            run = dict(base="b", inputs=["s.txt"], threads=1) if via == "lib" else dict(via="cli", base="b", args=["-q", "s.txt"])
            cases.append(dict(id=f"x{len(cases)}", files=files, report="changed", steps=[dict(run=run)]))
            meta.append(("exit", code, via, ""))
    # (d) the binary refuses to start as a subcommand
    for val, want in (("x", "err"), ("/abs/file.txtpp", "err"), (" ", "err"), ("", "ok")):
        files = [dict(path="b/s.txt.txtpp", text="a\n")]
        cases.append(dict(id=f"e{len(cases)}", files=files, report="changed",
                          steps=[dict(run=dict(via="cli", base="b", args=["-q", "s.txt"], env=dict(TXTPP_FILE=val)))]))
        meta.append(("refuse", val, want, ""))
    res = vh_cases(cases, wd, "c17", templates={}, procs=8)
    recs = []
    n_probe = 0
    for m, r in zip(meta, res):
        if r.get("skipped"):
            continue   # the runner stopped after too many hung / panicked runs (each one already reported)
        st = r["steps"][0]
        tree = st["tree"]
        kind = m[0]
        if st["verdict"] in ("panic", "hang", "toolerror"):
            rep.violation(f"run:{kind}:{m[-1]}", f"run ended in {st['verdict']}: {st.get('detail')} {st.get('stderr', '')[-300:]} [{m}]", dict(meta=m, step={k: v for k, v in st.items() if k != 'tree'}))
            continue
        if kind == "probe":
            _, srcs, pre, cname = m
            root = None
            log = tree.get("probe.log", {}).get("text", "")
            events = []
            for line in [x for x in log.split("\n") if x]:
                try:
                    head, cwd, tf = line.split("\x1e")
                    parts = head.split("\x1f")
                    argv = parts[1:]
                    if parts[0] != f"N={len(argv)}":
                        raise ValueError
                except ValueError:
                    rep.violation(f"run:probe:{cname}", f"unparsable probe record {line!r} [{cname}]", dict(line=line))
                    continue
                events.append(dict(event="probe", argv=argv, cwd=cwd, file=tf))
            # the root is where probe.sh lives: take it from the working directory of any event, else skip
            base = None
            for e in events:
                for p, _ in srcs:
                    d = os.path.dirname(p)
                    if e["cwd"].endswith("/b/" + d if d else "/b"):
                        base = e["cwd"][: len(e["cwd"]) - len("/" + d)] if d else e["cwd"]
                        break
                if base:
                    break
            if base is None:
                base = "/nonexistent"
            outs = []
            for p, _ in srcs:
                o = tree.get("b/" + p[:-6], {}).get("text")
                if o is not None:
                    outs.append(dict(path=p, out=o))
            recs.append(dict(event="init", base=base, pre=pre, sources=[dict(path=p, dir=os.path.dirname(p), lines=body) for p, body in srcs], cfg=cname))
            recs += events
            recs.append(dict(event="done", verdict=st["verdict"], outs=outs))
            n_probe += len(events)
        elif kind == "default":
            _, p, depth, cname = m
            out = tree.get("b/" + p[:-6], {}).get("text", "")
            lines = [x for x in out.split("\n") if x]
            ctx = f"[source {p}, {cname}, default shell]"
            if st["verdict"] != "ok" or len(lines) < 3:
                rep.violation(f"run:default:{cname}:{depth}", f"build with default shell: verdict {st['verdict']}, output {out!r} {st.get('detail', '')[:300]} {ctx}", dict(meta=m))
                continue
            d = DIRS[depth]
            if not lines[0].endswith("/b/" + d if d else "/b"):
                rep.violation(f"run:cwd:{cname}:{depth}", f"command ran in {lines[0]!r}, not in the directory of the source {ctx}", dict(meta=m, out=out))
            base_abs = lines[0][: len(lines[0]) - len("/" + d)] if d else lines[0]
            if lines[1] not in (p, base_abs + "/" + p):
                rep.violation(f"run:file:{cname}:{depth}", f"TXTPP_FILE={lines[1]!r} does not designate the source {ctx}", dict(meta=m, out=out))
            if not re.fullmatch(r"\[(.*/)?(sh|dash|bash)\]", lines[2]):
                rep.violation(f"run:shell:{cname}:{depth}", f"default shell is not `sh -c`: $0 = {lines[2]!r} {ctx}", dict(meta=m, out=out))
        elif kind == "own":
            _, d, threads, cname = m
            for i in range(3):
                out = tree.get(f"b/{d}/own{i}.txt", {}).get("text", "")
                p = f"{d}/own{i}.txt.txtpp"
                if st["verdict"] != "ok" or not (out.strip() == p or out.strip().endswith("/b/" + p)):
                    rep.violation(f"run:own:{cname}:{threads}", f"TXTPP_FILE seen by the command of {p} is {out.strip()!r} (verdict {st['verdict']}) [{cname}, {threads} thread(s), three sources "
                                  f"with the same command in one directory]", dict(meta=m, out=out))
        elif kind == "stateful":
            out = tree.get("b/st.txt", {}).get("text")
            if st["verdict"] != "ok" or out != "one\ntwo\nend\n":
                rep.violation(f"run:stateful:{m[1]}", f"a command executed twice with a state change in between gave {out!r}: the second execution is not a fresh process", dict(meta=m, out=out))
        elif kind == "failsecond":
            if st["verdict"] != "err":
                rep.violation(f"run:failsecond:{m[1]}", f"a command that exits non-zero the second time it is executed did not fail the build (verdict {st['verdict']})", dict(meta=m))
        elif kind == "exit":
            _, code, via, _ = m
            want = "ok" if code == 0 else "err"
            if st["verdict"] != want:
                rep.violation(f"run:exit:{code}:{via}", f"command ending with `{code}` (exit status / signal): verdict {st['verdict']}, expected {want} [{via}]", dict(meta=m))
            if code == 0 and tree.get("b/s.txt", {}).get("text") != "a\nout\nb\n":
                rep.violation(f"run:stdout:{via}", f"stdout of the command is not the directive output: {tree.get('b/s.txt')}", dict(meta=m))
        else:
            _, val, want, _ = m
            made = "b/s.txt" in tree
            if st["verdict"] != want or (want == "err" and made):
                rep.violation(f"run:refuse:{val!r}", f"TXTPP_FILE={val!r} in the environment: verdict {st['verdict']} (expected {want}), output written: {made}", dict(meta=m))
    # I->S: TLC validates every recorded invocation against PpCore.tla
    chunks, cur = [], []
    for e in recs:
        if e["event"] == "init" and len(cur) > 600:
            chunks.append(cur)
            cur = []
        cur.append(e)
    if cur:
        chunks.append(cur)

    cfg = os.path.join(wd, "rt.cfg")
    open(cfg, "w").write("SPECIFICATION TraceSpec\nPOSTCONDITION TraceAccepted\nCHECK_DEADLOCK FALSE\n")

    def val(ic):
        i, chunk = ic
        tf = os.path.join(wd, f"rt-{i}.ndjson")
        with open(tf, "w") as f:
            for e in chunk:
                f.write(json.dumps({k: v for k, v in e.items() if k != "cfg"}) + "\n")
        return chunk, run_tlc("RunTrace.tla", cfg, f"rt-{i}", workers=1, timeout=1800, env_extra={"TRACE": tf},
                              java_opts="-Xss1g -Xmx2g -Dtlc2.tool.queue.IStateQueue=StateDeque", check=False)
    with cf.ThreadPoolExecutor(max_workers=12) as ex:
        vals = list(ex.map(val, enumerate(chunks)))
    validated = 0
    states = 0
    for chunk, r in vals:
        states += r["states"]
        if r["ok"]:
            validated += len(chunk)
            continue
        mm = re.search(r'TRACE REJECTED at event",\s*(\d+)', r["out"])
        if not mm:
            raise ToolError("RunTrace validation broke:\n" + r["out"][-3000:])
        k = int(mm.group(1))
        validated += k - 1
        j = k - 1
        while j > 0 and chunk[j]["event"] != "init":
            j -= 1
        rep.violation(f"run:trace:{chunk[j].get('cfg')}:{chunk[k - 1]['event']}",
                      f"recorded event {chunk[k - 1]} is not what PpCore.tla prescribes for the run {chunk[j]}", dict(run=chunk[j:k + 1]))
    rep.coverage.update(dict(
        states=states, transitions=states, traces_validated_against_impl=validated,
        runs_with_probe_shell=sum(1 for m in meta if m[0] == "probe"), shell_invocations_recorded=n_probe,
        default_shell_runs=sum(1 for m in meta if m[0] == "default"), exit_code_runs=16, refusal_runs=4,
        rule="9 source bodies (single/multi-line commands, tab/space joins, failing commands, tag capture, empty command) x depth 0..3 x "
             "{library with cwd unrelated / equal to base ('.') / below base ('..', '../..'), CLI in base} x shell argument lists; every recorded "
             "invocation validated by TLC (RunTrace.tla); default shell observed through pwd -P / $TXTPP_FILE / $0; exit codes 0,1,3,127,255; "
             "TXTPP_FILE pre-set in the environment",
        samples=[recs[0], recs[1] if len(recs) > 1 else None],
    ))
    rep.assumptions = ["TXTPP_FILE may be the absolute path or the path relative to the base directory (README says absolute, the code passes the latter)"]
    from cli_engine import cli_layer
    cli_layer(rep, "C17", workdir("C17-cli"))
    rep.finish()
