"""Tree engine (Fs.tla / MCFs.tla): C06 C07 C08 C09 C10.

TLC checks the property statements on Fs.tla over all histories from the pristine tree and prints every
(state, txtpp action) edge of the whole abstract state space with its predicted post-state, verdict and
touched set.  Every edge is materialised on disk (fresh bytes come from a reference build of the same
binary on a pristine copy; garbage is drawn from a catalogue of corruptions), executed with the real
code, and the whole tree - bytes, inode, mtime of every file, decoys included - is compared."""
import itertools
import json
import os
import random
import re
import concurrent.futures as cf

from common import (SPEC, Report, ToolError, build_harness, build_cli, run_tlc, seed, tier, workdir)
from pure_engine import parse_emitted
from pp_engine import vh_cases

SENTINEL_NS = 1_000_000_000 * 1_000_000_000

SCENARIOS = {
    "AB": dict(sources=["A", "B"], deps=dict(A=["B"], B=[]), temps=["A"], failing=[], temp_after_deps=["A"], tla=("Src_AB", "Deps_AB", "Temp_AB", "Fail_None")),
    "ERR": dict(sources=["A", "B"], deps=dict(A=["B"], B=[]), temps=["A"], failing=["A"], tla=("Src_AB", "Deps_AB", "Temp_AB", "Fail_A")),
    "IND": dict(sources=["A", "B"], deps=dict(A=[], B=[]), temps=["A", "B"], failing=[], tla=("Src_AB", "Deps_IND", "Temp_IND", "Fail_None")),
    "TRB": dict(sources=["A", "B"], deps=dict(A=["B"], B=[]), temps=["A"], failing=[], readback=["A"], tla=("Src_AB", "Deps_AB", "Temp_AB", "Fail_None")),
    "EMP": dict(sources=["A", "B"], deps=dict(A=["B"], B=[]), temps=["B"], failing=[], empty=["B"], tla=("Src_AB", "Deps_AB", "Temp_B", "Fail_None")),
    "ABC": dict(sources=["A", "B", "C"], deps=dict(A=["B"], B=["C"], C=[]), temps=["A", "C"], failing=[], tla=("Src_ABC", "Deps_ABC", "Temp_ABC", "Fail_None")),
}

# layout: source -> (directory, source file name, output file name); temp target relative to the source's directory
LAYOUTS = {
    "flat": dict(A=("", "a.txt.txtpp", "a.txt"), B=("", "b.txt.txtpp", "b.txt"), C=("", "c.txt.txtpp", "c.txt"),
                 temp=dict(A="gen/ta.tmp", B="tb.tmp", C="tc.tmp")),     # gen/: a directory that holds nothing but a temp target
    "nested": dict(A=("", "a.txt.txtpp", "a.txt"), B=("sub", "b.txtpp.txt", "b.txt"), C=("sub/deep", "c.txtpp", "c"),
                   temp=dict(A="sub/ta.tmp", B="tb.tmp", C="../tc.tmp")),
    "shapes": dict(A=("x", "a.txtpp", "a"), B=("x", ".b.txt.txtpp", ".b.txt"), C=("", "c.txtpp.md", "c.md"),
                   temp=dict(A="../ta.tmp", B="tb.tmp", C="x/tc.tmp")),
}
DECOYS = ["a.txt.txtpp~", "a.txtpp.b.c", "txtpp", ".txtpp", "a.txt.TXTPP", "notes.md", "sub/decoy.txt", "sub/.txtpp.f",
          "x/h.txtpp.tar.gz", "a_txtpp", "sub/deep/keep.me", "x/a.txt_txtpp"]


def P(*parts):
    return os.path.normpath(os.path.join(*[p for p in parts if p != ""]))


class Project:
    def __init__(self, scen, layout, big=False):
        self.scen = SCENARIOS[scen]
        self.name = scen
        self.lay = LAYOUTS[layout]
        self.layout = layout
        self.big = big

    def src_path(self, s):
        d, f, _ = self.lay[s]
        return P(d, f)

    def out_path(self, s):
        d, _, o = self.lay[s]
        return P(d, o)

    def tmp_path(self, s):
        return P(self.lay[s][0], self.lay["temp"][s])

    def gen_path(self, g):
        kind, s = g.split(":")
        return self.out_path(s) if kind == "out" else self.tmp_path(s)

    def gens(self):
        return ["out:" + s for s in self.scen["sources"]] + ["tmp:" + s for s in self.scen["temps"]]

    def source_text(self, s, v):
        if s in self.scen.get("empty", []):
            # nothing but a temp directive: the output of this source is the empty file
            return "\n".join([f"// TXTPP#temp {self.lay['temp'][s]}", f"// body of {s} v{v}", "// ü second"]) + "\n"
        lines = [f"{s}-head v{v} é"]
        late_temp = s in self.scen.get("temp_after_deps", [])    # the temp directive comes after the dependency lines: only the final pass reaches it
        if s in self.scen["temps"] and not late_temp:
            lines += [f"// TXTPP#temp {self.lay['temp'][s]}", f"// body of {s} v{v}", "// ü second"]
            if s in self.scen.get("readback", []):
                # the source reads its own temp file back: its output depends on the temp file being regenerated first
                lines += [f"TXTPP#include {self.lay['temp'][s]}", "", f"-TXTPP#run cat {self.lay['temp'][s]}", ""]
        if self.big and s == "B":
            lines += [f"filler {i} " + "z" * 40 for i in range(260)]
        for d in self.scen["deps"][s]:
            rel = os.path.relpath(self.out_path(d), self.lay[s][0] or ".")
            lines.append(f"TXTPP#include {rel}")
        if s in self.scen["temps"] and late_temp:
            lines += [f"// TXTPP#temp {self.lay['temp'][s]}", f"// body of {s} v{v}", "// ü second"]
        if s in self.scen["failing"]:
            lines.append("TXTPP#include no-such-file")
        lines.append(f"{s}-tail")
        return "\n".join(lines) + "\n"

    def base_files(self, ver):
        files = [dict(path="p/" + self.src_path(s), text=self.source_text(s, ver[s])) for s in self.scen["sources"]]
        for d in DECOYS:
            files.append(dict(path="p/" + d, text=f"decoy {d}\n"))
        files.append(dict(path="p/gen", dir=True))
        # decoys at the names a careless implementation might use for staging / backup copies of an output
        for s in self.scen["sources"]:
            o = self.out_path(s)
            for suffix in (".tmp", "~", ".bak", ".new"):
                files.append(dict(path="p/" + o + suffix, text=f"decoy next to {o}\n"))
        return files

    def inputs_for(self, inputs, how):
        if how == "dir":
            return ["."], True
        names = []
        for i, s in enumerate(sorted(inputs)):
            names.append(self.src_path(s) if (i + len(inputs)) % 2 == 0 else self.out_path(s))
        return names, False


def vkey(vers):
    return tuple(sorted(vers.items()))


def reference_builds(proj, wd):
    """bytes of every generated path for every version assignment x trailing option (pristine builds)"""
    srcs = proj.scen["sources"]
    cases, meta = [], []
    ok_sources = [s for s in srcs]
    for combo in itertools.product([0, 1], repeat=len(srcs)):
        ver = dict(zip(srcs, combo))
        for tr in (True, False):
            # build each source separately so that a failing one does not hide the others
            cases.append(dict(id="ref", files=proj.base_files(ver), report="changed",
                              steps=[dict(run=dict(base="p", inputs=[proj.src_path(s)], mode="build", trailing=tr, threads=2))
                                     for s in ok_sources]))
            meta.append((ver, tr))
    res = vh_cases(cases, wd, "ref", templates={})
    ref = {}
    for (ver, tr), r in zip(meta, res):
        if r.get("skipped"):
            continue   # the runner stopped after too many hung / panicked runs (each one already reported)
        tree = {}
        for st in r["steps"]:
            tree.update(st["tree"])
        for g in proj.gens():
            s = g.split(":")[1]
            p = "p/" + proj.gen_path(g)
            if p in tree and "text" in tree[p]:
                rel = closure(proj, [s]) if g.startswith("out") else [s]
                if g.startswith("out") and any(x in proj.scen["failing"] for x in rel):
                    continue
                key = (g, vkey({x: ver[x] for x in rel}), tr if g.startswith("out") else True)
                ref[key] = tree[p]["text"]
    return ref


def closure(proj, srcs):
    seen = set(srcs)
    todo = list(srcs)
    while todo:
        s = todo.pop()
        for d in proj.scen["deps"][s]:
            if d not in seen:
                seen.add(d)
                todo.append(d)
    return sorted(seen)


GARBAGE_KINDS = ["empty", "cut", "cutmb", "random", "extended", "flip0", "flipm", "flipl", "staletext", "onebyte", "cutnl", "insert"]


def garbage(kind, fresh):
    """a corruption of the right content `fresh` (bytes); never equal to it"""
    f = fresh if fresh else b"right\n"
    if kind == "empty":
        g = b""
    elif kind == "cut":
        g = f[: len(f) // 2]
    elif kind == "cutmb":
        i = next((i for i, b in enumerate(f) if b >= 0x80), None)
        g = f[: i + 1] if i is not None else f[:1]
    elif kind == "random":
        g = b"\xff\xfe\x00\x01garbage\x80"
    elif kind == "extended":
        g = f + b"x"
    elif kind == "flip0":
        g = bytes([f[0] ^ 1]) + f[1:]
    elif kind == "flipm":
        m = len(f) // 2
        g = f[:m] + bytes([f[m] ^ 1]) + f[m + 1:]
    elif kind == "flipl":
        g = f[:-1] + bytes([f[-1] ^ 1])
    elif kind == "onebyte":
        g = f[:1]
    elif kind == "cutnl":
        g = f[:-1]
    elif kind == "insert":
        m = len(f) // 2
        g = f[:m] + b"Q" + f[m:]
    else:
        g = b"STALE text from an older run\n"
    if g == f or g == fresh:
        g = fresh + b"!"
    return g


def b64(b):
    import base64
    return base64.b64encode(b).decode()


def file_entry(path, data):
    try:
        return dict(path=path, text=data.decode("utf-8"))
    except UnicodeDecodeError:
        return dict(path=path, b64=b64(data))


def status_key(st):
    return json.dumps(st, sort_keys=True)


class Materialiser:
    def __init__(self, proj, ref, rng):
        self.proj, self.ref, self.rng = proj, ref, rng
        self.kind_counter = 0

    def built_bytes(self, g, st):
        # st = ["built", {src: ver}, tr]
        key = (g, vkey(st[1]), st[2])
        t = self.ref.get(key)
        return None if t is None else t.encode()

    def fresh_now(self, g, ver, tr):
        s = g.split(":")[1]
        rel = closure(self.proj, [s]) if g.startswith("out") else [s]
        key = (g, vkey({x: ver[x] for x in rel}), tr if g.startswith("out") else True)
        t = self.ref.get(key)
        return None if t is None else t.encode()

    def bytes_for(self, g, st, ver, tr, kind=None):
        """content for status st of path g (None = absent); returns (bytes|None, kind)"""
        if st[0] == "absent":
            return None, None
        if st[0] == "built":
            b = self.built_bytes(g, st)
            return b, None
        if kind is None:
            kind = GARBAGE_KINDS[self.kind_counter % len(GARBAGE_KINDS)]
            self.kind_counter += 1
        return garbage(kind, self.fresh_now(g, ver, tr) or b""), kind


def group_edges(edges):
    groups = {}
    for e in edges:
        o = e["obs"]
        k = (status_key(e["ver"]), status_key(e["from"]), o["act"], tuple(o["inputs"]), o["tr"])
        groups.setdefault(k, []).append(e)
    return list(groups.values())


ACT_PROP = dict(verify="C06", clean="C07", build="C08", needed="C09")


def judge_step(proj, mat, edge_group, pre, post, verdict, detail=""):
    """compare what a run did with the predictions of the edges of its group. Returns [(prop, msg)]"""
    e0 = edge_group[0]
    o = e0["obs"]
    act = o["act"]
    own = ACT_PROP[act]
    ver = e0["ver"]
    tr = o["tr"]
    probs = []
    if verdict in ("panic", "hang"):
        return [("C18", f"{act} ended in {verdict}: {detail}")]
    verdict_wrong = verdict != o["verdict"]
    if verdict_wrong:
        probs.append((own, f"verdict {verdict}, Fs.tla prescribes {o['verdict']} {detail[:200]}"))
    gen_paths = {"p/" + proj.gen_path(g): g for g in proj.gens()}
    # non-generated files: sources, decoys - bytes, inode and mtime must be unchanged (C10)
    for p, v in pre.items():
        if p in gen_paths or "dir" in v:
            continue
        w = post.get(p)
        if w is None:
            probs.append(("C10", f"{act} deleted {p}"))
        elif w.get("text") != v.get("text") or w.get("b64") != v.get("b64") or w.get("ino") != v.get("ino") or w.get("mtime") != v.get("mtime"):
            probs.append(("C10", f"{act} modified {p} (not a generated path)"))
    for p, w in post.items():
        if p not in pre and p not in gen_paths and "dir" not in w:
            probs.append(("C10", f"{act} created {p}, which is neither an output nor a temp target"))
    for p, v in pre.items():
        if "dir" in v and p not in post:
            probs.append(("C10", f"{act} removed the directory {p}"))
            if act == "clean":
                probs.append(("C07", f"clean removed the directory {p}, which was there before any build"))
    for p, w in post.items():
        if "dir" in w and p not in pre:
            probs.append(("C10", f"{act} created the directory {p}"))
    if verdict_wrong:
        return probs      # the prediction for the generated paths belongs to the other verdict
    # generated paths: some candidate post-state must explain the tree
    def touched(p):
        a, b = pre.get(p), post.get(p)
        if a is None and b is None:
            return False
        if a is None or b is None:
            return True
        return a.get("text") != b.get("text") or a.get("b64") != b.get("b64") or a.get("ino") != b.get("ino") or a.get("mtime") != b.get("mtime")

    def content(v):
        if v is None:
            return None
        if "text" in v:
            return v["text"].encode()
        import base64
        return base64.b64decode(v["b64"])
    cand_msgs = []
    for e in edge_group:
        msgs = []
        ok = e["obs"]["verdict"] == "ok"
        processed = closure(proj, e["obs"]["inputs"]) if act != "clean" else list(e["obs"]["inputs"])
        for p, g in gen_paths.items():
            st_from, st_to = e["from"][g], e["to"][g]
            got = content(post.get(p))
            was = content(pre.get(p))
            t = touched(p)
            may_touch = g in e["obs"]["touched"]
            if not ok and may_touch:
                continue   # a failing run leaves its own paths in an unspecified state
            # --- content
            if st_to[0] == "absent":
                if got is not None:
                    msgs.append((own, f"{p} still exists after {act}"))
            elif st_to[0] == "built":
                want = mat.built_bytes(g, st_to)
                if want is None:
                    msgs.append(("skip", "no reference bytes"))
                elif got != want:
                    msgs.append((own, f"{p} after {act}: {got!r}, a build from a pristine tree writes {want!r}"))
            elif st_to == st_from:
                if got != was:
                    msgs.append((own, f"{act} changed {p}, Fs.tla says it stays as it is"))
            # --- touched set
            if t and not may_touch:
                if g.split(":")[1] not in processed:
                    msgs.append(("C10", f"{act} touched {p}, which belongs to a source that is not processed"))
                elif act == "verify" and g.startswith("out"):
                    msgs.append(("C06", f"verify touched output {p}"))
                elif g.startswith("tmp") and st_from[0] == "built":
                    msgs.append(("C09", f"{act} rewrote temp file {p} although its content was already correct (inode/mtime changed)"))
                elif act == "needed" and st_from[0] == "built":
                    msgs.append(("C09", f"needed-build rewrote {p} although its content was already correct (inode/mtime changed)"))
                elif act == "clean" and pre.get(p) is None:
                    msgs.append(("C07", f"clean created {p}"))
                else:
                    msgs.append((own, f"{act} touched {p}, Fs.tla says it is left alone"))
            if ok and may_touch and not t and act != "clean":
                # predicted to be (re)written: a stale file must have been brought up to date, which the
                # content check above already decides; an unchanged mtime on a rewritten file is not an error
                pass
        cand_msgs.append(msgs)
    best = min(cand_msgs, key=len)
    if best and not any(m[0] == "skip" for m in best):
        probs += best
    return probs


def tlc_fs(rep, prop, wd, scen):
    """one TLC run: every abstract state is an initial state (InitAny), every txtpp action is taken from it; the action
    properties and invariants of Fs.tla are evaluated on every edge, and every edge is printed"""
    tla = SCENARIOS[scen]["tla"]
    consts = f"CONSTANTS\n  Sources <- {tla[0]}\n  Deps <- {tla[1]}\n  HasTemp <- {tla[2]}\n  Failing <- {tla[3]}\n"
    props = ("INVARIANTS BuildIdempotent BuildForgets CleanRestores NeededAfterBuildIdle\n"
             "PROPERTIES BuildHermetic BuildVerdict NeededEquivBuild NoRewriteWhenFresh VerifyExact CleanRemoves OnlyOwnPaths\n")
    cfg2 = os.path.join(wd, f"fse-{scen}.cfg")
    big = len(SCENARIOS[scen]["sources"]) > 2      # the full state space of a three-source project is out of reach: lighter family of states
    open(cfg2, "w").write(f"SPECIFICATION {'EdgeSpecLite' if big else 'EdgeSpec'}\n" + consts + "VIEW View\n" + props + "CHECK_DEADLOCK FALSE\n")
    runs = [("MCFs.tla", cfg2, f"fse-{prop}-{scen}", 1, 7200, None, "-Xss512m -Xmx8g")]
    if tier() == "thorough" and not big:
        # all histories from the pristine tree (edits, tampering, deletions, crashed builds in between): reachability of every state
        cfg1 = os.path.join(wd, f"fs-{scen}.cfg")
        open(cfg1, "w").write("SPECIFICATION Spec\n" + consts + "VIEW View\n" + props + "CHECK_DEADLOCK FALSE\n")
        runs.append(("MCFs.tla", cfg1, f"fs-{prop}-{scen}", 6, 7200))
    with cf.ThreadPoolExecutor(max_workers=2) as ex:
        rs = list(ex.map(lambda a: run_tlc(*a), runs))
    inv_prop = dict(BuildIdempotent="C08", BuildForgets="C08", BuildHermetic="C08", BuildVerdict="C08", CleanRestores="C07", CleanRemoves="C07",
                    NeededAfterBuildIdle="C09", NeededEquivBuild="C09", NoRewriteWhenFresh="C09", VerifyExact="C06", OnlyOwnPaths="C10")
    for r1 in rs:
        if not r1["ok"]:
            bad = [b for b in r1["violated"] if not b.startswith("Temporal")] + re.findall(r"Action property (\w+) is violated", r1["out"]) or ["?"]
            for inv in bad:
                p = inv_prop.get(inv, prop)
                msg = f"TLC: {inv} violated in Fs.tla (scenario {scen})"
                if p == prop:
                    rep.violation(f"spec:{inv}", msg, dict(out=r1["out"][-5000:]))
                else:
                    rep.note(msg)
    edges = parse_emitted(rs[0]["out"], "EDGE")
    if not edges:
        raise ToolError("TLC emitted no edges for " + scen + "\n" + rs[0]["out"][-2000:])
    if len(rs) > 1 and rs[1]["ok"] and rs[1]["states"] != rs[0]["states"]:
        rep.note(f"scenario {scen}: {rs[1]['states']} of {rs[0]['states']} abstract states are reachable from the pristine tree")
    return rs[0]["states"], rs[0]["transitions"], edges


def run_edges(rep, prop, wd, proj, ref, groups, rng, kinds_per_edge=1, via_cli_frac=0.0, tag="e"):
    mat = Materialiser(proj, ref, rng)
    cases, meta = [], []
    for gi, grp in enumerate(groups):
        e0 = grp[0]
        o = e0["obs"]
        ver = e0["ver"]
        skip = False
        for k in range(kinds_per_edge):
            files = proj.base_files(ver)
            kinds = {}
            for g in proj.gens():
                b, kind = mat.bytes_for(g, e0["from"][g], ver, o["tr"])
                if e0["from"][g][0] == "built" and b is None:
                    skip = True  # no real bytes for this abstract status (output of a failing source)
                if e0["from"][g][0] == "built" and b is not None:
                    fresh_b = mat.fresh_now(g, ver, o["tr"])
                    is_current = (e0["from"][g][1] == {x: ver[x] for x in e0["from"][g][1]}) and (e0["from"][g][2] == (o["tr"] if g.startswith("out") else True))
                    if not is_current and fresh_b == b:
                        skip = True  # two abstract statuses with the same bytes (e.g. an empty output): the state where it is fresh covers it
                if b is not None:
                    files.append(file_entry("p/" + proj.gen_path(g), b))
                    kinds[g] = kind
            if skip:
                break
            all_named = sorted(o["inputs"]) == sorted(proj.scen["sources"])
            how = "dir" if (all_named and (gi + k) % 2 == 0) else "files"
            names, rec = proj.inputs_for(o["inputs"], how)
            if how == "dir" and o["act"] == "clean":
                pass
            if rng.random() < via_cli_frac:
                args = ["-q"] + (["-r"] if rec else [])
                if o["act"] == "verify":
                    args = ["verify"] + args
                elif o["act"] == "clean":
                    args = ["clean"] + args
                elif o["act"] == "needed":
                    args = ["-N"] + args
                if not o["tr"] and o["act"] != "clean":
                    args.append("-n")
                run = dict(via="cli", base="p", args=args + names)
            else:
                run = dict(base="p", inputs=names, recursive=rec, mode=o["act"], trailing=o["tr"], threads=2)
            # generated files are younger than the sources in two cases out of three (as after a real build), same age otherwise
            newer = ["p/" + proj.gen_path(g) for g in proj.gens()] if (gi + k) % 3 else []
            cases.append(dict(id=f"{tag}{gi}", files=files, sentinel=True, newer=newer, steps=[dict(snapshot=True), dict(run=run)]))
            meta.append((grp, kinds, how))
    res = vh_cases(cases, wd, f"{tag}-{proj.name}-{proj.layout}", templates={})
    executed = 0
    classes = set()
    for (grp, kinds, how), r in zip(meta, res):
        if r.get("skipped"):
            continue   # the runner stopped after too many hung / panicked runs (each one already reported)
        pre = r["steps"][0]["tree"]
        st = r["steps"][1]
        post = st["tree"]
        executed += 1
        o = grp[0]["obs"]
        classes.add((o["act"], o["verdict"], tuple(sorted((g, s[0]) for g, s in grp[0]["from"].items())), tuple(o["inputs"])))
        probs = judge_step(proj, mat, grp, pre, post, st["verdict"], st.get("detail", "") or st.get("stderr", ""))
        for p, msg in probs:
            ctx = (f"[scenario {proj.name}/{proj.layout} versions {grp[0]['ver']} pre-state "
                   f"{ {g: (s[0] if s[0] != 'garbage' else 'garbage:' + str(kinds.get(g))) for g, s in grp[0]['from'].items()} } "
                   f"{o['act']} inputs={o['inputs']} via {how} trailing={o['tr']}]")
            gk = ",".join(f"{g}={kinds.get(g)}" for g in sorted(kinds) if kinds.get(g))
            key = f"fs:{proj.name}:{o['act']}:{gk}:{msg[:60]}"
            if p == prop:
                rep.violation(key, msg + " " + ctx, dict(scenario=proj.name, layout=proj.layout, edge=grp[0], garbage_kinds=kinds,
                                                         pre={k: v for k, v in pre.items() if 'dir' not in v}, post={k: v for k, v in post.items() if 'dir' not in v}))
            else:
                rep.note(f"(belongs to {p}) {msg} {ctx}"[:400])
    return executed, classes


def select(groups, acts, rng, frac):
    sel = [g for g in groups if g[0]["obs"]["act"] in acts]
    if frac >= 1:
        return sel
    # keep every (action, verdict, pre-status class) at least once
    by = {}
    for g in sel:
        o = g[0]["obs"]
        k = (o["act"], o["verdict"], tuple(sorted((x, s[0]) for x, s in g[0]["from"].items())), tuple(o["inputs"]), o["tr"])
        by.setdefault(k, []).append(g)
    out = []
    for k, gs in by.items():
        n = max(1, int(len(gs) * frac))
        out += rng.sample(gs, n)
    return out


def check(prop):
    rep = Report(prop, "model_checking")
    build_harness()
    build_cli()
    wd = workdir(prop)
    rng = random.Random(seed())
    quick = tier() == "quick"
    acts = dict(C06=["verify"], C07=["clean"], C08=["build"], C09=["needed", "build", "verify"], C10=["build", "needed", "verify", "clean"])[prop]
    plan = [("AB", "flat", False), ("AB", "nested", False), ("ERR", "flat", False), ("IND", "shapes", False), ("EMP", "flat", False), ("TRB", "flat", False)]
    if not quick:
        plan += [("ABC", "nested", False), ("AB", "flat", True), ("ERR", "nested", False), ("AB", "shapes", False), ("ABC", "flat", False)]
    states = trans = 0
    executed = 0
    classes = set()
    edge_cache = {}
    samples = []
    scens = sorted({p[0] for p in plan})
    with cf.ThreadPoolExecutor(max_workers=4) as ex:
        for scen, (s, t, edges) in zip(scens, ex.map(lambda sc: tlc_fs(rep, prop, wd, sc), scens)):
            edge_cache[scen] = group_edges(edges)
            states += s
            trans += t
    for scen, layout, big in plan:
        groups = edge_cache[scen]
        proj = Project(scen, layout, big)
        ref = reference_builds(proj, wd)
        frac = {True: dict(C06=0.5, C07=1.0, C08=0.5, C09=0.25, C10=0.12), False: dict(C06=1, C07=1, C08=1, C09=1, C10=1)}[quick][prop]
        if scen == "ABC" :
            frac = min(frac, 0.1 if not quick else 0.02)
        sel = select(groups, acts, rng, frac)
        n, cl = run_edges(rep, prop, wd, proj, ref, sel, rng, kinds_per_edge=1 if quick else 3,
                          via_cli_frac=0.01 if quick else 0.02)
        executed += n
        classes |= {(scen, layout) + c for c in cl}
        if sel:
            e = sel[len(sel) // 2][0]
            samples.append(dict(scenario=scen, layout=layout, edge=dict(ver=e["ver"], pre=e["from"], action=e["obs"]["act"], inputs=e["obs"]["inputs"],
                                                                         tr=e["obs"]["tr"], post=e["to"], verdict=e["obs"]["verdict"], touched=e["obs"]["touched"])))
    extra = {}
    if prop in ("C06", "C08", "C09"):
        # the mechanism below Fs.tla: io_context.rs as a model over bytes and chunkings (IoCtx.tla)
        r = run_tlc("IoCtx.tla", os.path.join(SPEC, "IoCtx.cfg"), f"ioctx-{prop}", workers=4, timeout=1800)
        states += r["states"]
        trans += r["transitions"]
        own = dict(VerifyExact="C06", BuildForgets="C08", NeededEquiv="C09", TempNoRewrite="C09")
        for inv in r["violated"]:
            if own.get(inv) == prop:
                rep.violation(f"spec:{inv}", f"TLC: {inv} violated in IoCtx.tla", dict(out=r["out"][-3000:]))
    if prop == "C08":
        extra = crash_points(rep, wd, rng, quick)
    if prop == "C06":
        extra = verify_size_classes(rep, wd, rng, quick)
    if prop == "C09":
        extra = rewrite_size_classes(rep, wd, rng, quick)
    if prop == "C07":
        extra = clean_histories(rep, wd, rng, quick)
        extra.update(pp_clean(rep, wd, rng, quick))
    rep.coverage.update(dict(
        states=states, transitions=trans, traces_validated_against_impl=executed,
        edges_executed=executed, distinct_edge_classes=len(classes), scenarios=[f"{a}/{b}{'/big' if c else ''}" for a, b, c in plan],
        rule="TLC: Fs.tla over all histories from the pristine tree (action properties + invariants) and every (state, action) edge of the whole "
             "abstract state space printed; code: each selected edge materialised (fresh = reference build of the same binary, garbage kinds "
             f"{GARBAGE_KINDS} in rotation), executed through the library (a seeded 1-2% through the CLI), whole tree compared (bytes, inode, mtime; "
             "decoys at near-miss names); classes = (scenario, layout, action, verdict, status of every generated path, inputs)",
        samples=samples[:3], **extra))
    rep.assumptions = ["fresh bytes come from a reference build of the same binary on a pristine tree (their correctness is C01's business)",
                       "for failing runs only the verdict and the set of paths that may be touched are claimed"]
    if prop in ("C06", "C07", "C09"):
        from cli_engine import cli_layer
        cli_layer(rep, prop, workdir(prop + "-cli"))
    rep.finish()


# ---------------------------------------------------------------------------------------------
def crash_points(rep, wd, rng, quick):
    """C08: a build killed at every hook event index (incl. every line step) and at random times is repaired by building again"""
    proj = Project("AB", "flat", True)
    ref = reference_builds(proj, wd)
    ver = dict(A=1, B=0)
    mat = Materialiser(proj, ref, rng)
    cases, meta = [], []
    points = list(range(1, 330 if quick else 640, 3 if quick else 1))
    for k in points:
        for pre in ("pristine", "built"):
            files = proj.base_files(ver)
            if pre == "built":
                for g in proj.gens():
                    files.append(file_entry("p/" + proj.gen_path(g), mat.fresh_now(g, dict(A=0, B=0), True)))
            cases.append(dict(id=f"crash{k}", files=files, steps=[
                dict(run=dict(base="p", inputs=["."], mode="build", threads=2, isolate=True, crash_at=k, log_pp=True)),
                dict(run=dict(base="p", inputs=["a.txt"], mode="build", threads=2))]))
            meta.append(("hook", k, pre))
    for i in range(60 if quick else 600):
        files = proj.base_files(ver)
        cases.append(dict(id=f"kill{i}", files=files, steps=[
            dict(run=dict(via="cli", base="p", args=["-q", "."], kill_after_us=rng.randint(200, 4000))),
            dict(run=dict(via="cli", base="p", args=["-q", "a.txt"]))]))
        meta.append(("sigkill", i, "pristine"))
    res = vh_cases(cases, wd, "crash", templates={}, procs=8)
    crashed = 0
    for (kind, k, pre), r in zip(meta, res):
        if r.get("skipped"):
            continue   # the runner stopped after too many hung / panicked runs (each one already reported)
        first, second = r["steps"][0], r["steps"][1]
        if first["verdict"] == "crashed":
            crashed += 1
        tree = second["tree"]
        ctx = f"[build of scenario AB/flat(big) killed ({kind} {k}, tree before: {pre}), then built again]"
        if second["verdict"] != "ok":
            rep.violation(f"crash:{kind}:verdict", f"the repairing build reports {second['verdict']} {second.get('detail', '')} {ctx}",
                          dict(kind=kind, at=k, pre=pre, interrupted={p: v for p, v in first.get('tree', {}).items() if 'dir' not in v and ('text' in v and len(v['text']) < 300 or 'b64' in v)}))
            continue
        for g in proj.gens():
            want = mat.fresh_now(g, ver, True)
            got = tree.get("p/" + proj.gen_path(g), {}).get("text")
            if got is None or got.encode() != want:
                rep.violation(f"crash:{kind}:{g}", f"{proj.gen_path(g)} differs from a pristine build after the repairing build {ctx}",
                              dict(kind=kind, at=k, pre=pre, got=got))
    return dict(crash_points_tried=len(cases), runs_actually_killed=crashed)


def clean_histories(rep, wd, rng, quick):
    """C07: build-then-clean restores a pristine tree exactly; clean without build; clean twice; no command ever runs"""
    cases, meta = [], []
    n = 0
    for scen, layout in (("AB", "flat"), ("AB", "nested"), ("ERR", "flat"), ("IND", "shapes"), ("ABC", "nested")):
        proj = Project(scen, layout)
        srcs = proj.scen["sources"]
        for ver in ({s: 0 for s in srcs}, {s: i % 2 for i, s in enumerate(srcs)}):
            files = proj.base_files(ver)
            # a run directive in every source: clean must never execute it
            for f in files:
                if f["path"].endswith(tuple(proj.src_path(s) for s in srcs)):
                    f["text"] += "-TXTPP#run echo ran >> '{root}/ran.log'; echo x\n"
                    f["subst"] = True
            for hist in (["build", "clean"], ["clean"], ["build", "clean", "clean"], ["build", "build", "clean"], ["needed", "clean"], ["clean", "build", "clean"]):
                for how in ("dir", "files"):
                    names, rec = proj.inputs_for(srcs, how)
                    steps = [dict(snapshot=True)]
                    for h in hist:
                        steps.append(dict(run=dict(base="p", inputs=names, recursive=rec, mode=h, threads=2, events=True)))
                    cases.append(dict(id=f"h{n}", files=files, steps=steps))
                    meta.append((proj, hist, how, scen in ("ERR",)))
                    n += 1
    res = vh_cases(cases, wd, "cleanhist", templates={})
    for (proj, hist, how, failing), r in zip(meta, res):
        if r.get("skipped"):
            continue   # the runner stopped after too many hung / panicked runs (each one already reported)
        # directories count as well (text None): none may disappear or appear
        pre = {p: ({} if "dir" in v else v) for p, v in r["steps"][0]["tree"].items()}
        ctx = f"[scenario {proj.name}/{proj.layout} history {hist} inputs via {how}]"
        ran_before = 0
        for h, st in zip(hist, r["steps"][1:]):
            tree = {p: ({} if "dir" in v else v) for p, v in st["tree"].items()}
            if h == "clean":
                if st["verdict"] != "ok":
                    rep.violation(f"clean:verdict:{proj.name}", f"clean reports {st['verdict']} {st.get('detail', '')} {ctx}", dict(hist=hist))
                runs = st.get("runs", [])
                log_now = tree.get("ran.log", {}).get("text", "")
                if runs or log_now.count("ran") != ran_before:
                    rep.violation(f"clean:ran:{proj.name}", f"clean executed a run command {runs} {ctx}", dict(hist=hist))
                # everything generated is gone, everything else is byte-identical
                gone = {p: v for p, v in tree.items() if p != "ran.log"}
                pre_cmp = {p: v.get("text") for p, v in pre.items()}
                now_cmp = {p: v.get("text") for p, v in gone.items()}
                if pre_cmp != now_cmp:
                    diff = sorted(set(pre_cmp.items()) ^ set(now_cmp.items()))[:4]
                    rep.violation(f"clean:restore:{proj.name}", f"tree after clean differs from the tree before any build: {diff} {ctx}", dict(hist=hist, diff=diff))
                for p, v in tree.items():
                    if p.endswith(".txtpp") and p not in pre:
                        pass
            ran_before = tree.get("ran.log", {}).get("text", "").count("ran")
    return dict(clean_histories=len(cases))


def pp_clean(rep, wd, rng, quick):
    """C07 on the line-machine catalogue: for every enumerated source (all directive kinds, erroneous directives, temp
    directives with and without body, prefix-less and multi-line forms) build - whatever its verdict - followed by clean
    leaves exactly the tree that was there before; PpCore.tla's clean pass (CleanCase) predicts which temp targets go"""
    import pp_engine
    firsts = list(range(0, pp_engine.NL + 1))
    maxlen = 2 if quick else 3
    states, cases = pp_engine.spec_run(rep, "C07", wd, maxlen, firsts)
    vcases, meta = [], []
    for ci, c in enumerate(cases):
        if any(x in pp_engine.ENV_NAMES for x in c["clean"]["removed"]):
            continue   # a temp directive aimed at one of the project's plain files: outside the domain (D8), nothing to restore
        # a temp file removed by hand (or by another source) before the clean: what is left must still go
        by_hand = [["build", ("delete", t), "clean"] for t in sorted(set(c["clean"]["removed"]))]
        for hist in [["build", "clean"], ["clean"], ["build", "clean", "clean"]] + by_hand:
            if hist != ["build", "clean"] and hist not in by_hand and rng.random() > 0.2:
                continue
            le = rng.choice(["\n", "\r\n"])
            files = [dict(path="b/s.txt.txtpp", text=pp_engine.render_source(c["src"], le))]
            steps = [dict(delete="b/" + h[1]) if isinstance(h, tuple) else dict(run=dict(base="b", inputs=["s.txt.txtpp", "d1.txtpp"], mode=h, threads=2)) for h in hist]
            vcases.append(dict(id=str(ci), template="ppenv", report="changed", files=files, steps=steps))
            meta.append((c, hist))
    res = pp_engine.vh_cases(vcases, wd, "ppclean")
    n = 0
    for (c, hist), r in zip(meta, res):
        if r.get("skipped"):
            continue   # the runner stopped after too many hung / panicked runs (each one already reported)
        n += 1
        last = r["steps"][-1]
        ctx = f"[source lines {c['src']} history {hist}]"
        if last["verdict"] != "ok":
            rep.violation(f"ppclean:verdict:{json.dumps(c['src'])}", f"clean reports {last['verdict']} {last.get('detail', '')[:200]} {ctx}", dict(src=c["src"], hist=hist))
            continue
        runs = last.get("runs", [])
        if runs:
            rep.violation(f"ppclean:ran:{json.dumps(c['src'])}", f"clean executed {runs} {ctx}", dict(src=c["src"], hist=hist))
        left = {p: v for p, v in last["tree"].items() if "dir" not in v}
        if left:
            rep.violation(f"ppclean:left:{sorted(left)}", f"after clean the tree differs from the tree before the build: {left} {ctx}", dict(src=c["src"], hist=hist, left=left))
    return dict(pp_clean_cases=n, pp_clean_sources=len(cases))


def verify_size_classes(rep, wd, rng, quick):
    """C06 beyond the small outputs of the scenarios: outputs of sizes around buffer boundaries (0, 1, 8191, 8192, 8193, 16384, ...),
    produced by plain text, by one big include and by command output, each tampered at every offset class"""
    sizes = [0, 1, 2, 100, 4095, 4096, 8191, 8192, 8193, 9999, 16383, 16384, 16385, 24576, 65536, 70001]
    if quick:
        sizes = [0, 1, 100, 8191, 8192, 8193, 16384, 24576, 70001]

    def text_of(n):
        out, i = "", 0
        while len(out) < n:
            out += f"line {i} of the generated text\n"
            i += 1
        out = out[:n]
        if n > 0:
            out = out[:-1] + "\n"
        return out
    cases, meta = [], []
    for n in sizes:
        body = text_of(n)
        for shape in ("text", "include", "run"):
            if shape == "text":
                files = [dict(path="p/o.txt.txtpp", text=body)]
            elif shape == "include":
                files = [dict(path="p/o.txt.txtpp", text="TXTPP#include big.dat\n"), dict(path="p/big.dat", text=body)]
            else:
                files = [dict(path="p/o.txt.txtpp", text="-TXTPP#run cat big.dat\n"), dict(path="p/big.dat", text=body)]
            for tr in (True, False):
                for tam in ("none", "append1", "append-many", "drop-last", "flip-first", "flip-mid", "flip-last", "insert-mid", "delete", "other-option"):
                    steps = [dict(run=dict(base="p", inputs=["o.txt"], mode="build", trailing=tr, threads=1)),
                             dict(tamper=dict(path="p/o.txt", how=tam)),
                             dict(snapshot=True),
                             dict(run=dict(base="p", inputs=["o.txt"], mode="verify", trailing=(tr if tam != "other-option" else not tr), threads=1))]
                    cases.append(dict(id=f"v{len(cases)}", files=files, sentinel=True, steps=steps))
                    meta.append((n, shape, tr, tam))
    res = pp_vh_cases_tamper(cases, wd)
    n_checked = 0
    for (n, shape, tr, tam), r in zip(meta, res):
        if r.get("skipped"):
            continue   # the runner stopped after too many hung / panicked runs (each one already reported)
        built, pre, ver = r["steps"][0], r["steps"][2]["tree"], r["steps"][3]
        if built["verdict"] != "ok":
            rep.note(f"(belongs to C01) build of a {n}-byte {shape} source failed")
            continue
        changed = r["steps"][1].get("changed", False)
        if tam == "other-option":
            # text: the option removes the final newline of a non-empty output; directive at end of file: it adds one
            changed = (n > 0) if shape == "text" else True
        want = "err" if changed else "ok"
        n_checked += 1
        ctx = f"[output of {n} bytes ({shape}), trailing={tr}, tampering {tam}]"
        if ver["verdict"] != want:
            rep.violation(f"verifysize:{tam}:{n}:{shape}", f"verify reports {ver['verdict']}, expected {want}: the output " + ("differs from" if changed else "equals") + f" what a build would write {ctx}",
                          dict(size=n, shape=shape, trailing=tr, tamper=tam))
        a, b = pre.get("p/o.txt"), ver["tree"].get("p/o.txt")
        if a != b:
            rep.violation(f"verifysize:touched:{n}:{shape}", f"verify touched the output {ctx}", dict(size=n, shape=shape, before=str(a)[:200], after=str(b)[:200]))
    return dict(verify_size_class_cases=n_checked)


def rewrite_size_classes(rep, wd, rng, quick):
    """C09 beyond the small files of the scenarios (seed r6-C09-stream-compare-no-consume): outputs and temp files of sizes around the
    8 KiB buffer boundaries with non-periodic content. History: build, [tamper], needed-build, build, needed-build (a snapshot before each). An up-to-date output
    keeps bytes, inode and mtime through every needed-build, an up-to-date temp file through every building run; a stale or missing one
    is brought back to the bytes of the first build."""
    sizes = [0, 1, 100, 8191, 8192, 8193, 16384, 24576, 70001] if quick else [0, 1, 2, 100, 4095, 4096, 8191, 8192, 8193, 9999, 16383, 16384, 16385, 24576, 65536, 70001, 200003]

    def lines_of(n):
        out, i = [], 0
        while sum(len(x) + 1 for x in out) < n:
            out.append(f"line {i} of the generated text {i * 7919 % 10007}")
            i += 1
        return out
    cases, meta = [], []
    for n in sizes:
        ls = lines_of(n)
        body = "\n".join(ls) + ("\n" if ls else "")
        for shape in ("text", "include", "temp"):
            if shape == "text":
                files = [dict(path="p/o.txt.txtpp", text=body)]
            elif shape == "include":
                files = [dict(path="p/o.txt.txtpp", text="TXTPP#include big.dat\n"), dict(path="p/big.dat", text=body)]
            else:
                files = [dict(path="p/o.txt.txtpp", text="head\n" + "\n".join(["// TXTPP#temp big.gen"] + ["// " + x for x in ls]) + "\ntail\n")]
            target = "p/big.gen" if shape == "temp" else "p/o.txt"
            for tam in ("none", "flip-mid", "flip-last", "drop-last", "append1", "delete"):
                run = lambda mode: dict(run=dict(base="p", inputs=["o.txt"], mode=mode, trailing=True, threads=1))
                steps = [run("build"), dict(snapshot=True), dict(tamper=dict(path=target, how=tam)), run("needed"), dict(snapshot=True), run("build"), dict(snapshot=True), run("needed")]
                cases.append(dict(id=f"w{len(cases)}", files=files, sentinel=True, steps=steps))
                meta.append((n, shape, tam, target))
    res = pp_vh_cases_tamper(cases, wd)
    n_checked = 0
    for (n, shape, tam, target), r in zip(meta, res):
        if r.get("skipped"):
            continue
        st = r["steps"]
        if st[0]["verdict"] != "ok":
            rep.note(f"(belongs to C01) build of a {n}-byte {shape} source failed")
            continue
        first = st[1]["tree"]
        ctx = f"[{shape} of about {n} bytes, tampering {tam} of {target}]"
        n_checked += 1
        trees = [first]
        for i, mode in ((3, "needed"), (5, "build"), (7, "needed")):
            if st[i]["verdict"] != "ok":
                rep.violation(f"rewritesize:verdict:{n}:{shape}:{tam}", f"{mode}-build fails where the build succeeded {ctx}", dict(size=n, shape=shape, tamper=tam, step=i))
                break
            t = st[i]["tree"]
            prev = st[1]["tree"] if i == 3 else st[i - 1]["tree"]   # the snapshot taken just before the run (the runner ages files at snapshots)
            for path in ("p/o.txt", "p/big.gen"):
                if path not in first:
                    continue
                a, b, f0 = prev.get(path), t.get(path), first.get(path)
                same_bytes = b is not None and {k: v for k, v in b.items() if k not in ("mtime", "ino", "inode")} == {k: v for k, v in f0.items() if k not in ("mtime", "ino", "inode")}
                if not same_bytes:
                    rep.violation(f"rewritesize:bytes:{n}:{shape}:{tam}", f"after the {mode}-build (step {i}) {path} does not hold the bytes a build writes {ctx}",
                                  dict(size=n, shape=shape, tamper=tam, step=i, first=str(f0)[:200], now=str(b)[:200]))
                    continue
                # was the file correct before this run? (step 3 follows the tampering of `target`)
                correct_before = not (i == 3 and path == target and st[2].get("changed", False))
                is_temp = path == "p/big.gen"
                if correct_before and (is_temp or mode == "needed") and a != b:
                    what = "temp file" if is_temp else "output"
                    rep.violation(f"rewritesize:rewritten:{n}:{shape}:{path}", f"the {mode}-build (step {i}) rewrote the {what} {path} although its content was already correct (inode/mtime changed) {ctx}",
                                  dict(size=n, shape=shape, tamper=tam, step=i, before=str(a)[:200], after=str(b)[:200]))
            trees.append(t)
    return dict(rewrite_size_class_cases=n_checked)


def pp_vh_cases_tamper(cases, wd):
    from pp_engine import vh_cases
    return vh_cases(cases, wd, "vsize", templates={}, procs=10)
