#!/usr/bin/env python3
"""validate MANIFEST.json and evidence files against the schemas (uses the tooling venv's jsonschema)"""
import json, sys, glob
import jsonschema
jsonschema.validate(json.load(open('/verif/MANIFEST.json')), json.load(open('/root/.vp/MANIFEST.schema.json')))
s = json.load(open('/root/.vp/EVIDENCE.schema.json'))
for f in sorted(glob.glob('/verif/evidence/*.json')):
    jsonschema.validate(json.load(open(f)), s)
    print('ok', f)
print('manifest ok')
