"""C18: no input or configuration makes txtpp panic or hang.

TLA+ decides only part of this property (DESIGN 5 C18): TLC shows on Sched.tla that a worker that dies
without sending leaves the coordinator waiting forever (so panic-freedom of the passes is necessary), that
the only unwrap() of the dependency manager cannot fail (DepMgrConsistent), and the line-machine model is
total (invariant Total).  Beyond the models' alphabets the check is a seeded driver - grammar-aware
hostile sources, byte-level mutation, hostile trees and option values - whose only oracle is the totality
postcondition: every run returns success or a reported error in bounded time."""
import json
import os
import random
import re

from common import (Report, ToolError, build_harness, build_cli, run_tlc, seed, tier, workdir)
from pp_engine import vh_cases, ENV_FILES
from sched_engine import cfg_text

CATALOGUE = [
    "x", "", "  y", "x A y B", "AB", " \t", "-TXTPP#run sh pa", "-TXTPP#run echo a", "  -TXTPP#run sh ab", "-TXTPP#run true",
    "-TXTPP#run sh x3", "TXTPP#run echo a", "\t// TXTPP#run sh cr", "-TXTPP#run cat t1", "TXTPP#include p1", "TXTPP#include p2",
    "  TXTPP#include p3", "TXTPP#include e0", "TXTPP#include nx", "TXTPP#include d1", "TXTPP#include pc", "-TXTPP#after d1",
    "TXTPP#tag A", "TXTPP#tag B", "TXTPP#tag AB", "-TXTPP#write q", "-TXTPP#write", "-", "-A", " r", "-TXTPP#run",
    "-TXTPP#temp bad.txtpp", "// TXTPP#temp t1", "// c", "//", "   d", "-TXTPP#", "TXTPP#runx",
]
HOSTILE_LINES = [
    b"\xff\xfe invalid utf8", b"nul\x00byte", b"lone\rcr", b"TXTPP#" + b"a" * 70000, b"-" * 5000 + b"TXTPP#run echo long-prefix",
    "　-TXTPP#run echo ideographic-space".encode(), "é TXTPP#write x".encode(), b"  y", b"   y", b"    y",
    "é ".encode() + b"cont", b"  ", b" ", b"   ", "  é".encode(), " —".encode(), "— TXTPP#write hello".encode(), "—— TXTPP#run echo".encode(),
    "😀 TXTPP#temp t1".encode(), "  😀".encode(), "   é".encode(), b"TXTPP#tag ", b"TXTPP#tag", b"-TXTPP#temp", b"-TXTPP#temp .", b"-TXTPP#temp ..", b"-TXTPP#temp sub",
    b"-TXTPP#temp /", b"-TXTPP#temp sub/deeper/none/t", b"TXTPP#include .", b"TXTPP#include /", b"TXTPP#include /dev/null",
    b"TXTPP#include sub", b"TXTPP#include s.txt.txtpp", b"TXTPP#include s.txt", b"TXTPP#after nowhere", b"TXTPP#after s.txt",
    b"TXTPP#include", b"TXTPP#after", b"-TXTPP#run exit 300", b"-TXTPP#run kill -9 $$", b"-TXTPP#run printf '\\377\\376'",
    b"-TXTPP#run cat big.bin", b"-TXTPP#write \xc3", b"\xe2\x82", b"-TXTPP#write", b"-\xff", b"TXTPP#TXTPP#TXTPP#",
    "TXTPP#tag é".encode(), "xéy".encode(), "-TXTPP#temp té.tmp".encode(), b"TXTPP#include d1.txtpp", b"\t \t", b"TXTPP# ", b"TXTPP#\t",
    b"-TXTPP#run echo " + b"z" * 200000, b"TXTPP#include ../b/p1", b"TXTPP#include ./././p1", b"-TXTPP#temp p1", b"-TXTPP#temp s.txt.txtpp.x",
]
TERMS = [b"\n", b"\r\n", b"\r", b"", b"\n\n", b"\r\r\n"]


def mutate(rng, data):
    data = bytearray(data)
    for _ in range(rng.randint(1, 6)):
        op = rng.random()
        pos = rng.randint(0, len(data)) if data else 0
        if op < 0.25 and data:
            i = rng.randrange(len(data))
            data[i] ^= 1 << rng.randrange(8)
        elif op < 0.5:
            data[pos:pos] = rng.choice([b"\xff", b"\x00", b"\r", b"\n", b"TXTPP#", b"\xc3", b"\xf0\x9f\x98", b" ", b"\t", b"-", b"TXTPP#run ", b"\xe2\x80\xa8"])
        elif op < 0.65 and data:
            j = min(len(data), pos + rng.randint(1, 8))
            del data[pos:j]
        elif op < 0.8 and data:
            j = min(len(data), pos + rng.randint(1, 30))
            data[pos:pos] = data[pos:j]
        elif op < 0.9 and data:
            del data[pos:]
        else:
            data[pos:pos] = rng.choice(HOSTILE_LINES) + rng.choice(TERMS)
    return bytes(data)


def b64(b):
    import base64
    return base64.b64encode(b).decode()


def gen_case(rng, i):
    n = rng.randint(0, 8)
    src = b""
    for _ in range(n):
        if rng.random() < 0.35:
            src += rng.choice(HOSTILE_LINES)
        else:
            src += rng.choice(CATALOGUE).encode()
        src += rng.choice(TERMS[:3]) if rng.random() < 0.9 else rng.choice(TERMS)
    if rng.random() < 0.5:
        src = mutate(rng, src)
    files = [dict(path="b/s.txt.txtpp", b64=b64(src)), dict(path="b/sub/.keep", text="")]
    if b"big.bin" in src:
        files.append(dict(path="b/big.bin", text="0123456789abcdef\n" * 9000))
    # hostile environment
    r = rng.random()
    if r < 0.08:
        files.append(dict(path="b/s.txt/inside", text="the output path is a directory\n"))
    elif r < 0.16:
        files.append(dict(path="b/s.txt", b64=b64(b"\xff\xfe leftover \x00")))
    elif r < 0.2:
        files.append(dict(path="b/s.txt", symlink="/dev/null"))
    if rng.random() < 0.1:
        files.append(dict(path="b/t1/inside", text="temp target is a directory\n"))
    elif rng.random() < 0.1:
        files.append(dict(path="b/t1", b64=b64(b"\xc3")))
    if rng.random() < 0.1:
        files.append(dict(path="b/p1", b64=b64(mutate(rng, b"a\n\xff\x00b\r"))))
    if rng.random() < 0.05:
        files.append(dict(path="b/weird.txtpp/inside", text="a directory with a source name\n"))
    if rng.random() < 0.05:
        files.append(dict(path="b/d1.txtpp", b64=b64(mutate(rng, b"D\nTXTPP#include s.txt\n"))))
    mode = rng.choice(["build", "needed", "verify", "clean"])
    threads = rng.choice([0, 1, 1, 2, 3, 4, 8, 16])
    inputs = rng.choice([["s.txt.txtpp"], ["s.txt"], ["."], [".", "s.txt"], ["s.txt", "s.txt.txtpp", "./s.txt"], ["sub"], [""], [".."], ["missing"],
                         ["weird.txtpp"], ["s.txt\x00"], ["{root}/b"], ["/"] if False else ["sub/.."], []])
    shell = rng.choice(["", "", "", "sh -c", "sh", "   ", "no-such-shell-xyz -c", "sh -c -e"])
    steps = []
    if mode in ("verify", "needed") and rng.random() < 0.5:
        steps.append(dict(run=dict(base="b", inputs=["."], mode="build", threads=2)))
    via_cli = rng.random() < 0.06 and all("\x00" not in x for x in inputs)
    if via_cli:
        args = {"build": [], "needed": ["-N"], "verify": ["verify"], "clean": ["clean"]}[mode] + ["-q", "-j", str(threads)]
        if rng.random() < 0.5:
            args.append("-r")
        if shell.strip() and mode not in ("clean",):
            args += ["-s", shell]
        steps.append(dict(run=dict(via="cli", base="b", args=args + inputs, timeout_ms=30000)))
    else:
        steps.append(dict(run=dict(base="b", inputs=inputs, mode=mode, threads=threads, recursive=rng.random() < 0.5, shell=shell,
                                   trailing=rng.random() < 0.5)))
    return dict(id=f"h{i}", template="ppenv", report="changed", files=files, steps=steps), dict(mode=mode, threads=threads, inputs=inputs, shell=shell, cli=via_cli, src=src[:300])


def pure_hostile(rep, wd, rng, quick):
    """the pure pieces (directive detection, continuation, tag store) on a systematic hostile space: non-ASCII characters of
    2, 3 and 4 bytes in leading whitespace, prefix, arguments, tag names; every indentation / space count around the
    character and byte length of the prefix; degenerate arguments. Any panic inside the code under test is a violation."""
    import itertools
    from pure_engine import vh_pure
    wss = ["", " ", "  ", "\t", "\u00a0", "\u3000 "]
    prefixes = ["-", "// ", "é", "é ", "— ", "😀", "/*\t", "", "—é ", "é\u00a0", "x😀 "]
    types = ["run", "", "temp", "write", "include", "tag"]
    args = ["", " a", " é", " \u00a0"]
    dlines = [w + p + "TXTPP#" + t + a for w in wss for p in prefixes for t in types for a in args]
    tails = ["", "x", "é", "—", "😀x", " ", "\t", "\u00a0", "é é", "x "]
    cands = set()
    for w in wss:
        for k in range(0, 10):
            for t in tails:
                cands.add(w + " " * k + t)
        for p in prefixes:
            for t in tails:
                cands.add(w + p + t)
                cands.add(w + p.rstrip() + t)
                cands.add(w[:-1] + p + t if w else p + t)
    cands = sorted(cands)
    reqs = [dict(op="addline", dline=d, cands=cands) for d in dlines]
    got = vh_pure(reqs, wd, "hostile-cont")
    calls = 0
    for r, g in zip(reqs, got):
        if g.get("panic") is not None:
            rep.violation(f"pure:addline:{r['dline']!r}", f"Directive::detect_from / add_line panicked on directive line {r['dline']!r} with some candidate of the hostile set: {g['panic'][:300]}",
                          dict(dline=r["dline"], panic=g["panic"]))
            # find one offending candidate
            for c in cands:
                one = vh_pure([dict(op="addline", dline=r["dline"], cands=[c])], wd, "hostile-one")[0]
                if one.get("panic") is not None:
                    rep.violation(f"pure:addline:{r['dline']!r}", f"add_line panics: directive line {r['dline']!r}, following line {c!r}: {one['panic'][:300]}", dict(dline=r["dline"], cand=c))
                    break
        calls += len(cands)
    alpha = [" ", "\t", "\u00a0", "-", "TXTPP#", "TXTPP", "#", "run", "tag", "é", "—", "😀", "\u3000", "x", "\r", "\x00"]
    lines = ["".join(t) for n in range(0, 4 if quick else 5) for t in itertools.product(alpha, repeat=n)]
    got = vh_pure([dict(op="detect", line=x) for x in lines], wd, "hostile-detect")
    for x, g in zip(lines, got):
        if g.get("panic") is not None:
            rep.violation(f"pure:detect:{x!r}", f"Directive::detect_from panicked on {x!r}: {g['panic'][:300]}", dict(line=x))
    calls += len(lines)
    names = ["", "a", "é", "—", "éa", "aé", "😀", " ", "ab", "b\u00a0", "b", "ba", "é—", "—a"]
    contents = ["", "é", "a\né", "—\r\n", "\n", "😀", "x\r", "\r\n\r\n", "é" * 50]
    tlines = ["", "é", "aé—", "x a é", "😀😀", "—a—", "ab aé", "\u00a0", "a" * 40 + "é", "aba", "bab", "aé—a", "xab"]
    sess = []
    for _ in range(3000 if quick else 40000):
        steps = []
        for _ in range(rng.randint(1, 4)):
            steps.append(["create", rng.choice(names)])
            if rng.random() < 0.8:
                steps.append(["store", rng.choice(contents)])
        for _ in range(rng.randint(1, 3)):
            steps.append(["inject", rng.choice(tlines), rng.choice(["\n", "\r\n"])])
            steps.append(["has"])
        sess.append(steps)
    got = vh_pure([dict(op="tags", steps=x) for x in sess], wd, "hostile-tags")
    for x, g in zip(sess, got):
        if g.get("panic") is not None:
            rep.violation(f"pure:tags:{json.dumps(x)[:80]}", f"TagState panicked on {x}: {g['panic'][:300]}", dict(steps=x))
    calls += len(sess)
    return dict(pure_function_hostile_calls=calls, hostile_directive_lines=len(dlines), hostile_candidates=len(cands))


def check():
    rep = Report("C18", "exploration")
    build_harness()
    build_cli()
    wd = workdir("C18")
    rng = random.Random(seed())
    quick = tier() == "quick"
    # (i) design level: a dying worker hangs the coordinator; the depmgr unwrap is safe
    cfg = os.path.join(wd, "panic.cfg")
    open(cfg, "w").write(cfg_text(nf=2, n=2, max_inputs=1, dirs=False, modes="BuildOnly", fails="NoFail", max_fail=0, panics=True, invariants="TypeOK"))
    r = run_tlc("MCSched.tla", cfg, "c18-panic", workers=4, timeout=1200, check=False)
    panic_hangs = any("Temporal" in v for v in r["violated"])
    if not panic_hangs:
        raise ToolError("expected Sched.tla with Panics=TRUE to violate Terminates (vacuity check):\n" + r["out"][-1500:])
    cfg = os.path.join(wd, "nopanic.cfg")
    open(cfg, "w").write(cfg_text(nf=3, n=2, max_inputs=1, dirs=False, modes="BuildOnly", fails="AllFail", max_fail=1))
    r2 = run_tlc("MCSched.tla", cfg, "c18-sched", workers=8, timeout=1200)
    if not r2["ok"]:
        for inv in r2["violated"]:
            if inv in ("DepMgrConsistent", "TypeOK") or "Temporal" in inv:
                rep.violation(f"spec:{inv}", f"TLC: {inv} violated in Sched.tla", dict(out=r2["out"][-3000:]))
    # (ii) the driver
    n = 6000 if quick else 80000
    cases, meta = [], []
    for i in range(n):
        c, m = gen_case(rng, i)
        cases.append(c)
        meta.append(m)
    # long directive arguments with multi-byte characters at every offset (anything that cuts or measures text by bytes)
    for k in range(0, 140 if quick else 400):
        for body in ("-- TXTPP#write ", "-TXTPP#run echo ", "TXTPP#include ", "TXTPP#tag ", "// TXTPP#temp "):
            if quick and (k + len(body)) % 3:
                continue
            line = body + "a" * k + rng.choice(["中文" * 30, "😀é" * 30, "é" * 60, "—" * 40])
            src = (line + "\nnext line\n").encode()
            mode = rng.choice(["build", "verify", "clean", "needed"])
            cases.append(dict(id=f"u{k}", template="ppenv", report="changed", files=[dict(path="b/s.txt.txtpp", b64=b64(src))],
                              steps=[dict(run=dict(base="b", inputs=["s.txt.txtpp"], mode=mode, threads=2))]))
            meta.append(dict(mode=mode, threads=2, inputs=["s.txt.txtpp"], shell="", cli=False, src=src[:200]))
    # option values on a plain project, all modes, thread counts 0..16
    for t in range(0, 17):
        for mode in ("build", "needed", "verify", "clean"):
            files = [dict(path="b/s.txt.txtpp", text="x\n-TXTPP#run echo a\ny\n"), dict(path="b/s.txt", text="x\na\ny\n")]
            cases.append(dict(id=f"j{t}{mode}", files=files, report="changed", steps=[dict(run=dict(base="b", inputs=["s.txt"], mode=mode, threads=t))]))
            meta.append(dict(mode=mode, threads=t, inputs=["s.txt"], shell="", cli=False, src=b"plain"))
            if t in (0, 1, 16):
                args = {"build": [], "needed": ["-N"], "verify": ["verify"], "clean": ["clean"]}[mode] + ["-q", "-j", str(t), "s.txt"]
                cases.append(dict(id=f"cj{t}{mode}", files=files, report="changed", steps=[dict(run=dict(via="cli", base="b", args=args))]))
                meta.append(dict(mode=mode, threads=t, inputs=["s.txt"], shell="", cli=True, src=b"plain"))
    pure_stats = pure_hostile(rep, wd, rng, quick)
    res = vh_cases(cases, wd, "c18", procs=14)
    verdicts = {}
    nontrivial = set()
    for m, r in zip(meta, res):
        if r.get("skipped"):
            continue   # the runner stopped after too many hung / panicked runs (each one already reported)
        st = r["steps"][-1]
        v = st["verdict"]
        verdicts[v] = verdicts.get(v, 0) + 1
        nontrivial.add((m["mode"], m["threads"], v, tuple(m["inputs"]), m["shell"], m["cli"], len(m["src"]) % 7))
        if v == "cmd-timeout":
            continue   # a (mutated) shell command that does not terminate: not txtpp's doing
        if v not in ("ok", "err"):
            key = f"robust:{v}:threads={m['threads']}" if m["threads"] == 0 else f"robust:{v}:{m['mode']}:{m['src'][:40]!r}"
            rep.violation(key, f"run ended in {v}: {st.get('detail') or st.get('stderr', '')[-300:]} [mode {m['mode']} threads {m['threads']} inputs {m['inputs']} "
                          f"shell {m['shell']!r} {'CLI' if m['cli'] else 'library'} source {m['src'][:120]!r}]",
                          dict(meta={k: (v2 if not isinstance(v2, bytes) else v2.decode('latin-1')) for k, v2 in m.items()},
                               step={k: v2 for k, v2 in st.items() if k != 'tree'}))
    rep.coverage.update(dict(
        evaluations=len(cases), distinct_nontrivial=len(nontrivial), verdicts=verdicts,
        **pure_stats,
        design_level=dict(worker_panic_hangs_coordinator=panic_hangs, depmgr_unwrap_safe_states=r2["states"]),
        rule="seeded: sources of 0-8 lines drawn from the line catalogue and a list of hostile lines (invalid UTF-8, NUL, lone CR, 70 kB and 200 kB "
             "lines, non-ASCII whitespace / prefixes, degenerate directive arguments, self/cyclic includes), random terminators, byte-level "
             "mutation of half of them; hostile trees (output path is a directory / symlink / non-UTF-8 leftover, temp target is a directory, "
             "directory named like a source); x modes x threads {0,1,2,3,4,8,16} x recursive x shells x input lists; plus thread counts 0..16 x "
             "modes on a plain project (library and CLI). distinct = (mode, threads, verdict, inputs, shell, entry point, source length class)",
        samples=[{k: (v if not isinstance(v, bytes) else v.decode("latin-1")) for k, v in meta[3].items()}],
    ))
    rep.assumptions = ["a run is hung when the coordinator polls with nothing outstanding, or does not return within 30 s",
                       "the oracle is totality only; TLA+ contributes the necessity argument (PanicHangs) and the models' totality"]
    from cli_engine import cli_layer
    cli_layer(rep, "C18", workdir("C18-cli"))
    rep.finish()
