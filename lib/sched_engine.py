"""Scheduler engine: C02 C03 C04 C05 (DESIGN 2.4, 3.2-3.4).

1. TLC model-checks Sched.tla (every digraph, input list, interleaving inside the bounds).
2. The real coordinator is driven through every gate-level schedule of projects that
   materialise those digraphs (vh sched), judged by the property statements.
3. The hook traces of those runs are validated against Sched.tla by TLC (SchedTrace.tla).
4. TLC-generated behaviours are replayed into the real coordinator (S->I).
"""
import json
import os
import random
import re
import subprocess
import concurrent.futures as cf

from common import (SPEC, VH, WORK, Report, ToolError, build_harness, run_tlc, seed, tier, workdir,
                    tlc_coverage)

ALL_INV = ("TypeOK ExitQuiescent Accounting AtMostOnce SuccessComplete CleanInert NoBadRead "
           "NoFalseSuccess FailDetected CycleVerdict NoSpuriousCirc NoSpuriousErr Bystanders "
           "DepMgrConsistent OnlyRequired")

# which property an invariant of Sched.tla speaks for
INV_PROP = {
    "NoBadRead": "C02", "SuccessComplete": "C03", "ExitQuiescent": "C03", "Accounting": "C03",
    "AtMostOnce": "C03", "Terminates": "C03", "TypeOK": "C03", "DepMgrConsistent": "C03",
    "OnlyRequired": "C03", "CleanInert": "C03",
    "NoFalseSuccess": "C04", "FailDetected": "C04", "NoSpuriousErr": "C04",
    "CycleVerdict": "C05", "NoSpuriousCirc": "C05", "Bystanders": "C05",
}


def cfg_text(nf, n, max_inputs, dirs, modes, fails, max_fail, liveness=True, panics=False, spec="Spec",
             extra="", invariants=None):
    return f"""SPECIFICATION {spec}
CONSTANTS
  NF = {nf}
  N = {n}
  MaxInputs = {max_inputs}
  DirFiles <- {'TreeDirFiles' if dirs else 'NoDirFiles'}
  DirSubs <- {'TreeDirSubs' if dirs else 'NoDirSubs'}
  Modes <- {modes}
  FailKinds <- {fails}
  MaxFail = {max_fail}
  Panics = {'TRUE' if panics else 'FALSE'}
INVARIANTS {ALL_INV if invariants is None else invariants}
{'PROPERTIES Terminates' if liveness else ''}
CHECK_DEADLOCK FALSE
{extra}
"""


# (name, cfg kwargs) per property and tier: each property gets the slice of the space that its
# quantifier names; the thorough tier widens every dimension.
MC_CONFIGS = {
    "C02": {
        "quick": [("c02-n2", dict(nf=3, n=2, max_inputs=2, dirs=False, modes="BuildOnly", fails="NoFail", max_fail=0)),
                  ("c02-n3", dict(nf=3, n=3, max_inputs=1, dirs=False, modes="BuildOnly", fails="NoFail", max_fail=0))],
        "thorough": [("c02-n1", dict(nf=3, n=1, max_inputs=3, dirs=False, modes="BuildOnly", fails="NoFail", max_fail=0)),
                     ("c02-n2", dict(nf=3, n=2, max_inputs=3, dirs=False, modes="BuildOnly", fails="NoFail", max_fail=0, liveness=False)),
                     ("c02-n3", dict(nf=3, n=3, max_inputs=2, dirs=False, modes="BuildOnly", fails="NoFail", max_fail=0)),
                     ("c02-nf4", dict(nf=4, n=2, max_inputs=1, dirs=False, modes="BuildOnly", fails="NoFail", max_fail=0, liveness=False))],
    },
    "C03": {
        "quick": [("c03-dirs", dict(nf=3, n=2, max_inputs=1, dirs=True, modes="BuildClean", fails="NoFail", max_fail=0)),
                  ("c03-n1", dict(nf=3, n=1, max_inputs=2, dirs=False, modes="BuildOnly", fails="NoFail", max_fail=0))],
        "thorough": [("c03-dirs-live", dict(nf=3, n=2, max_inputs=1, dirs=True, modes="BuildClean", fails="NoFail", max_fail=0)),
                     ("c03-dirs", dict(nf=3, n=2, max_inputs=2, dirs=True, modes="BuildOnly", fails="NoFail", max_fail=0, liveness=False)),
                     ("c03-n1", dict(nf=3, n=1, max_inputs=2, dirs=True, modes="BuildOnly", fails="NoFail", max_fail=0)),
                     ("c03-n4", dict(nf=3, n=4, max_inputs=1, dirs=True, modes="BuildOnly", fails="NoFail", max_fail=0)),
                     ("c03-nf4", dict(nf=4, n=2, max_inputs=1, dirs=False, modes="BuildOnly", fails="NoFail", max_fail=0, liveness=False))],
    },
    "C04": {
        "quick": [("c04-f1", dict(nf=3, n=2, max_inputs=1, dirs=False, modes="BuildOnly", fails="AllFail", max_fail=1)),
                  ("c04-f2", dict(nf=2, n=2, max_inputs=2, dirs=False, modes="BuildClean", fails="AllFail", max_fail=2))],
        "thorough": [("c04-f2", dict(nf=3, n=2, max_inputs=1, dirs=False, modes="BuildClean", fails="AllFail", max_fail=2, liveness=False)),
                     ("c04-f3", dict(nf=3, n=3, max_inputs=1, dirs=False, modes="BuildOnly", fails="AllFail", max_fail=3, liveness=False)),
                     ("c04-dirs", dict(nf=3, n=2, max_inputs=1, dirs=True, modes="BuildOnly", fails="AllFail", max_fail=1)),
                     ("c04-n1", dict(nf=3, n=1, max_inputs=2, dirs=False, modes="BuildOnly", fails="AllFail", max_fail=1))],
    },
    "C05": {
        "quick": [("c05-n2", dict(nf=3, n=2, max_inputs=2, dirs=False, modes="BuildOnly", fails="NoFail", max_fail=0)),
                  ("c05-n1", dict(nf=3, n=1, max_inputs=2, dirs=False, modes="BuildOnly", fails="NoFail", max_fail=0))],
        "thorough": [("c05-n2", dict(nf=3, n=2, max_inputs=2, dirs=True, modes="BuildOnly", fails="NoFail", max_fail=0, liveness=False)),
                     ("c05-n3", dict(nf=3, n=3, max_inputs=2, dirs=False, modes="BuildOnly", fails="NoFail", max_fail=0)),
                     ("c05-nf4", dict(nf=4, n=2, max_inputs=1, dirs=False, modes="BuildOnly", fails="NoFail", max_fail=0, liveness=False)),
                     ("c05-nf4n3", dict(nf=4, n=3, max_inputs=1, dirs=False, modes="BuildOnly", fails="NoFail", max_fail=0, liveness=False))],
    },
}


def model_check(rep, prop):
    wd = workdir(f"{prop}-mc")
    states = trans = 0
    details = []
    for name, kw in MC_CONFIGS[prop][tier()]:
        cfg = os.path.join(wd, name + ".cfg")
        open(cfg, "w").write(cfg_text(**kw))
        r = run_tlc("MCSched.tla", cfg, name, workers=12, timeout=7200, extra=("-coverage", "1"))
        states += r["states"]
        trans += r["transitions"]
        cov = tlc_coverage(r["out"])
        acts = {a: cov[a][1] for a in ("CoordSpawn", "Begin", "Work", "End", "CoordRecv", "CoordExit", "CoordDrop") if a in cov}
        details.append(dict(config=name, constants=kw, states=r["states"], transitions=r["transitions"],
                            wall_s=round(r["wall"], 1), action_counts=acts))
        dead = [a for a, c in acts.items() if c == 0]
        if dead:
            raise ToolError(f"vacuous model run {name}: actions never taken: {dead}")
        if not r["ok"]:
            bad = r["violated"] or ["?"]
            for inv in bad:
                inv = inv.split(":")[-1] if inv.startswith("Temporal:") else ("Terminates" if "Temporal" in inv else inv)
                p = INV_PROP.get(inv, prop)
                msg = f"TLC: {inv} violated in Sched.tla ({name}); the design itself breaks {p}"
                m = re.search(r"Error: The behavior up to this point is:(.*?)(?:\n\d+ states generated|\Z)", r["out"], re.S)
                rep.violation(f"spec:{inv}", msg, dict(config=kw, counterexample=(m.group(1)[:20000] if m else r["out"][-5000:])))
    rep.coverage["states"] = states
    rep.coverage["transitions"] = trans
    rep.coverage["model_runs"] = details


# ---------------------------------------------------------------------------------------------
def digraph(nf, g):
    return [[j + 1 for j in range(nf) if (g >> (i * nf + j)) & 1] for i in range(nf)]


def scenario_sets(rng):
    """the scenario superset shared by C02-C05 (each check judges by its own property)"""
    quick = tier() == "quick"
    sets = []
    nf = 3
    allg = list(range(512))

    def sample(frac):
        k = max(1, int(len(allg) * frac))
        return sorted(rng.sample(allg, k))

    s = []
    for n in (2, 1, 3):
        for g in allg:
            for inp in range(1, nf + 1):
                s.append(dict(nf=nf, deps=digraph(nf, g), inputs=[["file", inp]], n=n, alias=g + inp))
    sets.append(("single-input all 512 digraphs N=1,2,3 (all schedules)", s, None))
    s = []
    for g in (allg if not quick else sample(0.25)):
        for a in range(1, nf + 1):
            for b in range(1, nf + 1):
                s.append(dict(nf=nf, deps=digraph(nf, g), inputs=[["file", a], ["file", b]], n=2, alias=g + a))
    sets.append(("input pairs incl. duplicates/aliases N=2", s, 60 if quick else 2000))
    s = []
    for g in (allg if not quick else sample(0.25)):
        for inputs, rec in (([["dir", 4]], False), ([["dir", 4]], True), ([["dir", 5], ["file", 1]], False),
                            ([["dir", 4], ["dir", 5]], True), ([["file", 3], ["dir", 4]], True)):
            s.append(dict(nf=nf, deps=digraph(nf, g), inputs=inputs, recursive=rec, n=2, alias=g))
    sets.append(("directory inputs, recursive on/off N=2", s, 40 if quick else 1000))
    s = []
    for g in (allg if not quick else sample(0.5)):
        for f in range(1, nf + 1):
            for kind in ("pre", "post"):
                fail = ["none"] * nf
                fail[f - 1] = kind
                for inp in ((1,) if quick else (1, 2, 3)):
                    s.append(dict(nf=nf, deps=digraph(nf, g), fail=fail, inputs=[["file", inp]], n=2, alias=g))
    # the faulty file and its dependencies scheduled independently of each other (directory scan, several inputs)
    for g in (allg if not quick else sample(0.25)):
        for f in range(1, nf + 1):
            for kind in ("pre", "post"):
                fail = ["none"] * nf
                fail[f - 1] = kind
                for inputs, rec, n in (([["dir", 4]], True, 2), ([["file", 1], ["file", 2]], False, 3), ([["file", 3], ["file", 1]], False, 1)):
                    s.append(dict(nf=nf, deps=digraph(nf, g), fail=fail, inputs=inputs, recursive=rec, n=n, alias=g))
    sets.append(("one failing file at each position x pre/post, single / several / directory inputs", s, 40 if quick else 1000))
    s = []
    for g in sample(0.125 if quick else 0.5):
        for inputs in ([["file", 1]], [["dir", 4]], [["file", 2], ["file", 2]]):
            s.append(dict(nf=nf, deps=digraph(nf, g), inputs=inputs, recursive=True, mode="clean", n=2, alias=g))
    sets.append(("clean mode", s, 30 if quick else 300))
    if not quick:
        s = []
        for g in allg:
            s.append(dict(nf=nf, deps=digraph(nf, g), inputs=[["file", 1], ["file", 2], ["file", 3]], n=3, alias=g))
        sets.append(("all three files as inputs N=3", s, 3000))
    # the coordinator polling while tasks are still outstanding (what it does every 100 ms in production): one such poll
    # at a seeded point of a random schedule; each costs the code's own 100 ms sleep
    s = []
    for g in sample(0.2 if quick else 1.0):
        for f in range(1, nf + 1):
            fail = ["none"] * nf
            fail[f - 1] = "post"
            for inputs, rec, n in (([["dir", 4]], True, 2), ([["file", 1], ["file", 2]], False, 3), ([["file", 3], ["file", 2], ["file", 1]], False, 2)):
                s.append(dict(nf=nf, deps=digraph(nf, g), fail=fail, inputs=inputs, recursive=rec, n=n, alias=g, policy="probe", reps=2 if quick else 6))
        s.append(dict(nf=nf, deps=digraph(nf, g), inputs=[["dir", 4]], recursive=True, n=2, alias=g, policy="probe", reps=2 if quick else 6))
    sets.append(("empty-poll probes (coordinator polls while tasks are outstanding)", s, None))
    # gates inside the pass bodies: a task also parks before each of its commands (its output is truncated / partly written
    # then), so that other tasks - e.g. a dependency being run again - can be scheduled into the middle of a reader's pass
    s = []
    for g in sample(0.3 if quick else 1.0):
        for inputs, rec, n in (([["file", 1]], False, 2), ([["dir", 4]], True, 2), ([["file", 3], ["dir", 4]], True, 3), ([["file", 1], ["file", 2], ["file", 3]], False, 3)):
            s.append(dict(nf=nf, deps=digraph(nf, g), inputs=inputs, recursive=rec, n=n, alias=g, policy="cmdgates", reps=4 if quick else 20))
    sets.append(("random schedules with gates before every command (interleaving inside pass bodies)", s, None))
    s = []
    for i in range(40 if quick else 400):
        nf2 = rng.choice((3, 4))
        g = rng.getrandbits(nf2 * nf2) & rng.getrandbits(nf2 * nf2)
        fail = ["none"] * nf2
        if rng.random() < 0.5:
            fail[rng.randrange(nf2)] = rng.choice(["pre", "post"])
        s.append(dict(nf=nf2, deps=digraph(nf2, g), fail=fail, inputs=[["dir", nf2 + 1]], recursive=True, n=rng.choice((1, 2, 4)), alias=i, policy="ungated", reps=1))
    sets.append(("ungated runs (production polling, 100 ms sleeps)", s, None))
    # larger graphs: random schedules and free-running threads
    s = []
    for i in range(300 if quick else 3000):
        nf2 = rng.choice((4, 5))
        g = rng.getrandbits(nf2 * nf2)
        if rng.random() < 0.6:  # thin the graph out so that acyclic ones are common
            g &= rng.getrandbits(nf2 * nf2)
        k = rng.choice((1, 2))
        inputs = [["file", rng.randint(1, nf2)] for _ in range(k)]
        n = rng.choice((1, 2, 3, 4))
        s.append(dict(nf=nf2, deps=digraph(nf2, g), inputs=inputs, n=n, alias=i, policy="random", reps=4))
    sets.append(("random digraphs on 4-5 files, random gate schedules", s, None))
    s = []
    for i in range(150 if quick else 1500):
        nf2 = rng.choice((3, 4, 5))
        g = rng.getrandbits(nf2 * nf2) & rng.getrandbits(nf2 * nf2)
        inputs = [["file", rng.randint(1, nf2)] for _ in range(rng.choice((1, 2)))]
        if rng.random() < 0.3:
            inputs = [["dir", nf2 + 1]]
        n = rng.choice((1, 2, 4, 8, 16))
        s.append(dict(nf=nf2, deps=digraph(nf2, g), inputs=inputs, recursive=True, n=n, alias=i, policy="free", reps=3))
    sets.append(("free-running threads 1-16 with jitter", s, None))
    return sets


def run_vh_sched(name, scenarios, max_per, out_root):
    out = os.path.join(out_root, name)
    os.makedirs(out, exist_ok=True)
    sf = os.path.join(out, "scenarios.ndjson")
    with open(sf, "w") as f:
        for s in scenarios:
            f.write(json.dumps(s) + "\n")
    cmd = [VH, "sched", "--scenarios", sf, "--out", out, "--jobs", "14", "--seed", str(seed())]
    if max_per:
        cmd += ["--max-per-scenario", str(max_per)]
    r = subprocess.run(cmd, capture_output=True, text=True, timeout=7200)
    if r.returncode != 0 or not os.path.exists(os.path.join(out, "result.json")):
        raise ToolError(f"vh sched failed ({r.returncode}): {r.stderr[-2000:]}")
    return json.load(open(os.path.join(out, "result.json"))), out


def split_traces(files):
    """yield (key=(nf,n), [lines]) per recorded run"""
    for fn in files:
        cur = None
        key = None
        for line in open(fn):
            if line.startswith('{"deps"') or '"event":"init"' in line:
                if cur:
                    yield key, cur
                e = json.loads(line)
                key = (e["nf"], e["n"])
                cur = [line]
            elif cur is not None:
                cur.append(line)
        if cur:
            yield key, cur


TRACE_CFG = """SPECIFICATION TraceSpec
CONSTANTS
  NF = {nf}
  N = {n}
  MaxInputs = 3
  DirFiles <- TreeDirFiles
  DirSubs <- TreeDirSubs
  Modes <- BuildClean
  FailKinds <- AllFail
  MaxFail = {nf}
  Panics = FALSE
INVARIANTS ExitQuiescent Accounting AtMostOnce SuccessComplete CleanInert NoBadRead NoFalseSuccess FailDetected CycleVerdict NoSpuriousCirc NoSpuriousErr Bystanders DepMgrConsistent OnlyRequired
POSTCONDITION TraceAccepted
CHECK_DEADLOCK FALSE
"""


OBS_PROPS = {"NoC02": "C02", "NoC03": "C03", "NoC04": "C04", "NoC05": "C05", "NoC18": "C18"}


def observational_check(trace_lines, wd, tag):
    """second opinion on one run that Sched.tla does not accept: SchedObs.tla states only what any coordinator must
    obey. Returns (properties whose rules are broken, detail)"""
    tf = os.path.join(wd, f"obs-{tag}.ndjson")
    with open(tf, "w") as f:
        f.writelines(trace_lines)
    r = run_tlc("SchedObs.tla", os.path.join(SPEC, "SchedObs.cfg"), f"obs-{os.path.basename(wd)}-{tag}", workers=1, timeout=600,
                env_extra={"TRACE": tf}, java_opts="-Xss1g -Xmx2g -Dtlc2.tool.queue.IStateQueue=StateDeque", check=False)
    if r["ok"]:
        return [], ""
    broken = [OBS_PROPS[v] for v in r["violated"] if v in OBS_PROPS]
    if not broken:
        raise ToolError("SchedObs validation broke:\n" + r["out"][-3000:])
    m = re.search(r"bad = (\{.*?\})\n", r["out"], re.S)
    return broken, (m.group(1) if m else "")


def validate_chunk(args):
    """validate a list of recorded runs against Sched.tla; a run the model rejects is set aside (with the reason) and the
    rest of the chunk is validated again, so that every run gets a verdict"""
    idx, key, traces, wd = args
    nf, n = key
    cfg = os.path.join(wd, f"chunk-{idx}.cfg")
    open(cfg, "w").write(TRACE_CFG.format(nf=nf, n=n))
    res = dict(idx=idx, key=key, traces=len(traces), events=sum(len(t) for t in traces), states=0, rejected=[])
    remaining = list(traces)
    for attempt in range(8):
        if not remaining:
            break
        tf = os.path.join(wd, f"chunk-{idx}.ndjson")
        with open(tf, "w") as f:
            for t in remaining:
                f.writelines(t)
        r = run_tlc("SchedTrace.tla", cfg, f"tr-{os.path.basename(wd)}-{idx}", workers=1, timeout=1800,
                    env_extra={"TRACE": tf}, java_opts="-Xss1g -Xmx3g -Dtlc2.tool.queue.IStateQueue=StateDeque", check=False)
        res["states"] += r["states"]
        if r["ok"]:
            break
        m = re.search(r'TRACE REJECTED at event",\s*(\d+)', r["out"])
        pos = None
        if m:
            pos = int(m.group(1))
        elif r["violated"]:
            st = re.findall(r"^State (\d+):", r["out"], re.M)
            pos = int(st[-1]) - 1 if st else None
        if pos is None:
            raise ToolError("trace validation broke:\n" + r["out"][-3000:])
        acc = 0
        for ti, t in enumerate(remaining):
            if acc + len(t) >= pos:
                invs = [i for i in r["violated"] if not i.startswith("Temporal")]
                res["rejected"].append(dict(trace=t, at=pos - acc, invariants=invs))
                remaining = remaining[:ti] + remaining[ti + 1:]
                break
            acc += len(t)
        else:
            break
    return res


def validate_traces(rep, prop, out_dirs, rng, limit):
    files = []
    for d in out_dirs:
        files += [os.path.join(d, f) for f in sorted(os.listdir(d)) if f.startswith("traces-")]
    groups = {}
    total = 0
    for key, t in split_traces(files):
        groups.setdefault(key, []).append(t)
        total += 1
    # sample within each group, keeping the proportions
    chunks = []
    wd = workdir(f"{prop}-tv")
    picked = 0
    for key, ts in sorted(groups.items()):
        k = len(ts) if total <= limit else max(5, int(len(ts) * limit / total))
        if k < len(ts):
            ts = rng.sample(ts, k)
        picked += len(ts)
        per = 250
        for i in range(0, len(ts), per):
            chunks.append((len(chunks), key, ts[i:i + per], wd))
    results = []
    with cf.ThreadPoolExecutor(max_workers=12) as ex:
        for r in ex.map(validate_chunk, chunks):
            results.append(r)
    events = sum(r["events"] for r in results)
    drift = 0
    for r in results:
        for k, rej in enumerate(r["rejected"]):
            trace = [json.loads(x) for x in rej["trace"]]
            ev = trace[rej["at"] - 1] if 0 < rej["at"] <= len(trace) else None
            if rej["invariants"]:
                for inv in rej["invariants"]:
                    p = INV_PROP.get(inv, "C03")
                    msg = f"trace of the real coordinator violates {inv} of Sched.tla at event {rej['at']}: {ev}"
                    if p == prop:
                        rep.violation(f"trace:{inv}", msg, dict(trace=trace, at=rej["at"]))
                    else:
                        rep.note(f"(belongs to {p}) " + msg)
                continue
            # no action of Sched.tla matches: ask the observational specification whether a property-level rule is broken
            broken, detail = observational_check(rej["trace"], wd, f"{r['idx']}-{k}")
            if not broken:
                drift += 1
                rep.note(f"MODEL-DRIFT: a recorded run is not a behaviour of Sched.tla (event {rej['at']}: {ev}) but obeys every rule of "
                         f"SchedObs.tla: no property is violated on it")
                continue
            for p in broken:
                msg = (f"trace of the real coordinator breaks a rule of SchedObs.tla for {p}: {detail} (Sched.tla has no matching action for "
                       f"event {rej['at']}: {ev})")
                if p == prop:
                    rep.violation(f"trace:obs:{p}", msg, dict(trace=trace, at=rej["at"], broken=detail))
                else:
                    rep.note(f"(belongs to {p}) " + msg[:400])
    rep.coverage["model_drift_runs"] = drift
    rep.coverage["traces_recorded_distinct"] = total
    rep.coverage["traces_validated_against_impl"] = picked
    rep.coverage["trace_events_validated"] = events
    rep.coverage["trace_validation_states"] = sum(r["states"] for r in results)
    return results


def conformance(rep, prop):
    build_harness()
    rng = random.Random(seed())
    out_root = workdir(f"{prop}-dfs")
    sets = scenario_sets(rng)
    runs = 0
    summary = {}
    out_dirs = []
    samples = []
    for i, (title, scen, max_per) in enumerate(sets):
        res, out = run_vh_sched(f"set{i}", scen, max_per, out_root)
        out_dirs.append(out)
        s = res["summary"]
        runs += s.get("runs", 0)
        summary[title] = s
        for v in res["violations"]:
            for pr in v["problems"]:
                key = f"sched:{json.dumps(v['scenario'], sort_keys=True)}"
                msg = (f"{pr['message']} [scenario {json.dumps(v['scenario'])} schedule {v['schedule']} "
                       f"policy {v['policy']} verdict {v['verdict']} {v['detail']}]")
                if pr["property"] == prop:
                    rep.violation(key, msg, v)
                else:
                    rep.note(f"(belongs to {pr['property']}) {msg[:300]}")
        if scen:
            samples.append(dict(set=title, scenario=scen[len(scen) // 2]))
    rep.coverage["schedules_executed"] = runs
    rep.coverage["schedule_sets"] = summary
    limit = 2500 if tier() == "quick" else 60000
    results = validate_traces(rep, prop, out_dirs, rng, limit)
    rep.coverage["samples"] = samples[:4]
    return out_dirs


def apalache_depmgr(rep):
    """C03 / C18: the dependency manager's consistency as an inductive invariant, discharged by Apalache for any sequence of
    add_dependency / notify_finish calls (spec/apalache/DepMgr.tla): base case and inductive step"""
    wd = workdir("C03-apalache")
    ok = 0
    for args in (["--init=Init", "--inv=IndInv", "--length=0"], ["--init=IndInit", "--inv=IndInv", "--length=1"]):
        r = subprocess.run(["timeout", "1500", "apalache-mc", "check", f"--out-dir={wd}", f"--run-dir={wd}/run"] + args + [os.path.join(SPEC, "apalache", "DepMgr.tla")],
                           capture_output=True, text=True, cwd=wd)
        out = r.stdout + r.stderr
        if "The outcome is: NoError" in out:
            ok += 1
        elif "The outcome is: Error" in out:
            rep.violation("spec:DepMgrInductive", f"Apalache: the inductive invariant of the dependency manager fails ({' '.join(args)})", dict(out=out[-3000:]))
        else:
            raise ToolError("apalache-mc failed:\n" + out[-2000:])
    rep.coverage["apalache_inductive_obligations_discharged"] = ok


def check(prop):
    rep = Report(prop, "model_checking")
    rep.assumptions = [
        "Sched.tla models the coordinator at the grain of the hook gates (begin / body / send / receive)",
        "interleavings inside a pass body are reached only by the free-running runs",
        "TLC bounds: see coverage.model_runs; code schedules: see coverage.schedule_sets",
    ]
    model_check(rep, prop)
    if prop == "C03":
        apalache_depmgr(rep)
    conformance(rep, prop)
    if prop in ("C02", "C03", "C05"):
        n = replay_behaviours(rep, prop)
        rep.coverage["traces_validated_against_impl"] = rep.coverage.get("traces_validated_against_impl", 0) + n
    if prop == "C04":
        rep.coverage.update(io_faults(rep, workdir("C04-faults"), random.Random(seed()), tier() == "quick"))
        from cli_engine import cli_layer
        cli_layer(rep, "C04", workdir("C04-cli"))
    rep.coverage["exhaustive"] = False
    rep.coverage["rule"] = ("TLC: all reachable states of Sched.tla for the listed constants. Code: every gate-level schedule "
                            "(DFS) of each scenario unless truncated (see truncated_scenarios), judged by the property's "
                            "own statement; distinct traces validated by TLC against Sched.tla")
    rep.finish()


# ---------------------------------------------------------------------------------------------
# C04: real faults (DESIGN 5 C04): each fault kind x position of the faulty file x mode x entry point
def io_faults(rep, wd, rng, quick):
    from pp_engine import vh_cases
    pos = dict(r="root", m="middle", l="leaf", s="unrelated sibling")
    big = "".join(f"filler line {i} {'z' * 60}\n" for i in range(200))   # > 8 KiB: the BufWriter flushes mid-stream

    def sources(fault_at=None, kind=None, bigout=False):
        body = dict(r="R-head\nTXTPP#include m.txt\nR-tail\n", m="M-head\nTXTPP#include l.txt\nM-tail\n",
                    l="L-body\n", s="S-body\n")
        if bigout:
            for k in body:
                body[k] += big
        if fault_at and kind in DIRECTIVE_FAULTS:
            body[fault_at] += DIRECTIVE_FAULTS[kind]
        return [dict(path=f"p/{k}.txt.txtpp", text=v) for k, v in body.items()] + [dict(path="p/sub/.keep", text=""),
                                                                                    dict(path="p/bin.dat", b64="//4AgQ==")]
    cases, meta = [], []

    def add(files, steps, kind, at, mode, via, expect, extra=""):
        cases.append(dict(id=f"f{len(cases)}", files=files, report="changed", steps=steps))
        meta.append(dict(kind=kind, at=at, mode=mode, via=via, expect=expect, extra=extra))

    def run_step(mode, via, inputs, **kw):
        if via == "cli":
            args = {"build": [], "needed": ["-N"], "verify": ["verify"], "clean": ["clean"]}[mode] + ["-q", "-j", "3"] + inputs
            return dict(run=dict(via="cli", base="p", args=args, **kw))
        return dict(run=dict(base="p", inputs=inputs, mode=mode, threads=3, jitter=rng.randint(1, 1 << 30), **kw))
    for at in pos:
        for via in ("lib", "cli"):
            for inputs in (["."], ["r.txt", "s.txt"]):
                # directive-level faults
                for kind in DIRECTIVE_FAULTS:
                    for mode in ("build", "needed", "verify"):
                        steps = []
                        if mode == "verify":
                            steps.append(dict(run=dict(base="p", inputs=["."], mode="build", threads=2)))
                            # the fault is introduced after the build
                            f = [x for x in sources(at, kind) if x["path"] == f"p/{at}.txt.txtpp"][0]
                            steps.append(dict(write=f))
                            add(sources(), steps + [run_step(mode, via, inputs)], kind, at, mode, via, "err")
                        else:
                            add(sources(at, kind), [run_step(mode, via, inputs)], kind, at, mode, via, "err")
                    # clean succeeds even with directive errors
                    add(sources(at, kind), [run_step("clean", via, inputs)], kind, at, "clean", via, "ok")
                # output path is a directory
                for mode in ("build", "needed"):
                    # (name the sources: an output name that is a directory would be a directory input)
                    ins = inputs if inputs == ["."] else ["r.txt.txtpp", "s.txt.txtpp"]
                    add(sources() + [dict(path=f"p/{at}.txt/inside", text="x")], [run_step(mode, via, ins)], "output-is-directory", at, mode, via, "err")
                # output is a symlink to /dev/full: writes fail with ENOSPC (build streams to the file). Only for files nobody
                # includes: reading /dev/full never ends, and a defect that lets the build of an included file "succeed"
                # would make the includer read it until the process is killed for memory
                for bigout in ((False, True) if at in ("r", "s") else ()):
                    add(sources(bigout=bigout) + [dict(path=f"p/{at}.txt", symlink="/dev/full")], [run_step("build", via, inputs)],
                        "output->/dev/full" + ("(>8KiB)" if bigout else ""), at, "build", via, "err")
                # tampered / missing output in verify
                for tam in ("flip", "append", "truncate", "delete"):
                    steps = [dict(run=dict(base="p", inputs=["."], mode="build", threads=2))]
                    good = dict(r="R-head\nM-head\nL-body\nM-tail\nR-tail\n", m="M-head\nL-body\nM-tail\n", l="L-body\n", s="S-body\n")[at]
                    if tam == "delete":
                        steps.append(dict(delete=f"p/{at}.txt"))
                    else:
                        bad = dict(flip=good[:-2] + "X\n", append=good + "x", truncate=good[:-1])[tam]
                        steps.append(dict(write=dict(path=f"p/{at}.txt", text=bad)))
                    add(sources(), steps + [run_step("verify", via, inputs)], "verify-" + tam, at, "verify", via, "err")
                # the same for outputs whose fresh length is 0 or a multiple of the I/O buffer size (where a streaming
                # comparison has nothing buffered when it decides whether anything is left over)
                good_len = dict(r=35, m=21, l=7, s=7)[at]
                for size in (0, 8192, 16384):
                    if size == 0 and at not in ("l", "s"):
                        continue
                    fs_ = sources()
                    for x in fs_:
                        if x["path"] == f"p/{at}.txt.txtpp":
                            if size == 0:
                                x["text"] = "-TXTPP#\n"
                            else:
                                pad, t = size - good_len, ""
                                while pad > 64:
                                    t += "y" * 63 + "\n"
                                    pad -= 64
                                x["text"] += t + "y" * (pad - 1) + "\n"
                    for how, grown in (("append1", 1), ("append-many", 9000)):
                        steps = [dict(run=dict(base="p", inputs=["."], mode="build", threads=2)),
                                 dict(tamper=dict(path=f"p/{at}.txt", how=how)), dict(snapshot=True)]
                        add(fs_, steps + [run_step("verify", via, inputs)], f"verify-append@{size}", at, "verify", via, "err", extra=size + grown)
                # temp target cannot be written
                for tk in ("temp-is-directory", "temp-dir-missing"):
                    fs_ = sources()
                    for x in fs_:
                        if x["path"] == f"p/{at}.txt.txtpp":
                            x["text"] += "// TXTPP#temp " + ("sub" if tk == "temp-is-directory" else "nodir/t.tmp") + "\n// body\n"
                    for mode in ("build", "needed", "verify"):
                        pre = [dict(run=dict(base="p", inputs=["."], mode="build", threads=2))] if mode == "verify" else []
                        add(fs_, pre + [run_step(mode, via, inputs)], tk, at, mode, via, "err")
            # write limit hit after N bytes (RLIMIT_FSIZE, SIGXFSZ ignored): CLI only
            for mode in ("build", "needed"):
                for blocks, bigout in ((0, False), (1, True), (8, True), (20, True)):
                    add(sources(bigout=bigout), [run_step(mode, "cli", ["."], fsize_blocks=blocks)], f"EFBIG after {blocks * 512} bytes", at, mode, "cli", "err")
    # control: no fault -> success and complete, correct outputs
    for via in ("lib", "cli"):
        for mode in ("build", "needed"):
            for bigout in (False, True):
                add(sources(bigout=bigout), [run_step(mode, via, ["."])], "none", "-", mode, via, "ok", "big" if bigout else "")
    res = vh_cases(cases, wd, "c04faults", templates={}, procs=10)
    kinds = set()
    for m, r in zip(meta, res):
        if r.get("skipped"):
            continue   # the runner stopped after too many hung / panicked runs (each one already reported)
        st = r["steps"][-1]
        if m["kind"].startswith("verify-append@"):
            got = r["steps"][-2]["tree"].get(f"p/{m['at']}.txt", {}).get("size")
            if got != m["extra"]:
                raise ToolError(f"C04 fault driver: the tampered output has {got} bytes, expected {m['extra']} ({m['kind']} at {m['at']})")
        kinds.add((m["kind"], m["at"], m["mode"], m["via"]))
        ctx = f"[fault {m['kind']} at the {pos.get(m['at'], '-')} file, mode {m['mode']}, {m['via']}]"
        if st["verdict"] in ("panic", "hang"):
            rep.note(f"(belongs to C18) {st['verdict']} {ctx}")
            continue
        if st["verdict"] != m["expect"]:
            if m["expect"] == "err":
                rep.violation(f"fault:{m['kind']}:{m['at']}:{m['mode']}:{m['via']}", f"the run reports success although processing a required file fails {ctx}",
                              dict(meta=m, step={k: v for k, v in st.items() if k != 'tree'}))
            elif m["mode"] == "clean":
                rep.note(f"(belongs to C07) clean fails on a directive error {ctx}")
            else:
                rep.violation(f"fault:none:{m['mode']}:{m['via']}", f"fault-free project fails: {st.get('detail') or st.get('stderr')} {ctx}", dict(meta=m))
        elif m["kind"] == "none":
            tree = st["tree"]
            suffix = "".join(f"filler line {i} {'z' * 60}\n" for i in range(200)) if m["extra"] == "big" else ""
            want = dict(l="L-body\n" + suffix, s="S-body\n" + suffix)
            want["m"] = "M-head\n" + want["l"] + "M-tail\n" + suffix
            want["r"] = "R-head\n" + want["m"] + "R-tail\n" + suffix
            for k, v in want.items():
                if tree.get(f"p/{k}.txt", {}).get("text") != v:
                    rep.violation(f"fault:none:output:{k}", f"success reported but output {k}.txt is not complete and correct {ctx}", dict(meta=m))
    return dict(fault_runs=len(cases), fault_classes=len(kinds))


DIRECTIVE_FAULTS = {
    "prefix-less multi-line directive": "TXTPP#run echo x\n",
    "failing command": "-TXTPP#run exit 3\n",
    "command killed by a signal": "-TXTPP#run echo partial; kill -9 $$; echo never\n",
    "command that execs a crashing process": "-TXTPP#run exec sh -c 'kill -SEGV $$'\n",
    "missing include": "TXTPP#include no-such-file\n",
    "include of a directory": "TXTPP#include sub\n",
    "include of a non-UTF-8 file": "TXTPP#include bin.dat\n",
    "unused tag at end of file": "TXTPP#tag NEVER_USED\n",
    "temp target ending in .txtpp": "-TXTPP#temp gen.txtpp\n-x\n",
}


# ---------------------------------------------------------------------------------------------
# S->I: behaviours generated by TLC (simulation mode) replayed into the real coordinator
SIM_CFG = """SPECIFICATION SimSpec
CONSTANTS
  NF = {nf}
  N = 8
  MaxInputs = 2
  DirFiles <- NoDirFiles
  DirSubs <- NoDirSubs
  Modes <- BuildOnly
  FailKinds <- NoFail
  MaxFail = 0
  Panics = FALSE
INVARIANTS EmitBehaviour
CHECK_DEADLOCK FALSE
"""


def behaviour_to_replay(states):
    """derive the scenario, the schedule (wishes) and the expected observations from a sequence of spec states"""
    s0 = states[0]
    nf = len(s0["deps"])
    scen = dict(nf=nf, deps=s0["deps"], inputs=s0["inputs"], n=8, alias=0, policy="guided", reps=1)
    wishes, polls = [], []

    def key(t):
        return (t["kind"], t["id"], t["first"])
    for a, b in zip(states, states[1:]):
        wa, wb = {key(t) for t in a["working"]}, {key(t) for t in b["working"]}
        ra, rb = {key(t) for t in a["running"]}, {key(t) for t in b["running"]}
        if rb - ra:                      # Work(t): the body is over -> the gate decision "begin" covers Begin+Work
            (t,) = rb - ra
            wishes.append(["begin", t[0], t[1], t[2]])
        elif ra - rb and len(b["chan"]) == len(a["chan"]) + 1:      # End(t)
            (t,) = ra - rb
            wishes.append(["end", t[0], t[1], t[2]])
        elif b["done"] == a["done"] + 1:                             # CoordRecv
            wishes.append(["poll"])
            polls.append(dict(done=a["done"], total=a["total"], edges=a["edges"], counts=a["counts"], fin=a["fin"]))
        elif a["pc"] == "loop" and b["pc"] == "drop" and b["done"] == a["done"]:   # CoordExit
            wishes.append(["poll"])
            polls.append(dict(done=a["done"], total=a["total"], edges=a["edges"], counts=a["counts"], fin=a["fin"]))
    last = states[-1]
    scen["wishes"] = wishes
    exp = dict(polls=polls, verdict=last["verdict"], cmdRuns=last["cmdRuns"], disk=last["disk"], finals=last["finals"])
    return scen, exp


def replay_behaviours(rep, prop):
    wd = workdir(f"{prop}-s2i")
    quick = tier() == "quick"
    jobs = []
    nproc = 24 if quick else 240
    for i in range(nproc):
        nf = (3, 4, 5)[i % 3]
        cfg = os.path.join(wd, f"sim-{i}.cfg")
        open(cfg, "w").write(SIM_CFG.format(nf=nf))
        jobs.append((cfg, i))

    def one(job):
        cfg, i = job
        return run_tlc("MCSched.tla", cfg, f"sim-{prop}-{i}", workers=1, timeout=600,
                       extra=("-simulate", "num=10", "-depth", "200", "-seed", str(seed() * 1000 + i)), check=False)
    with cf.ThreadPoolExecutor(max_workers=12) as ex:
        outs = list(ex.map(one, jobs))
    from pure_engine import parse_emitted
    scens, exps = [], []
    seen = set()
    for r in outs:
        for states in parse_emitted(r["out"], "BEHAVIOUR"):
            sc, exp = behaviour_to_replay(states)
            k = json.dumps([sc["deps"], sc["inputs"], sc["wishes"]])
            if k in seen:
                continue
            seen.add(k)
            scens.append(sc)
            exps.append(exp)
    if not scens:
        raise ToolError("TLC simulation produced no behaviours")
    res, out = run_vh_sched("s2i", scens, None, wd)
    by_index = {r["index"]: r for r in res.get("replays", [])}
    replayed = 0
    for i, (sc, exp) in enumerate(zip(scens, exps)):
        r = by_index.get(i)
        if r is None:
            continue
        replayed += 1
        ctx = f"[TLC behaviour replayed: deps {sc['deps']} inputs {sc['inputs']} schedule {sc['wishes']}]"
        polls = [dict(done=e["done"], total=e["total"], edges=e["edges"], counts=e["counts"], fin=e["fin"]) for e in r["events"] if e["e"] == "poll"]
        key = f"s2i:{json.dumps(sc['deps'])}:{json.dumps(sc['inputs'])}"
        probs = []
        if polls != exp["polls"]:
            # the counters are internals of the coordinator: a divergence alone is model drift, not a violation; the
            # observable part of the behaviour (verdict, command executions, freshness of every output) is compared below
            k = next((j for j, (a, b) in enumerate(zip(polls, exp["polls"])) if a != b), min(len(polls), len(exp["polls"])))
            rep.note(f"MODEL-DRIFT: coordinator counters diverge from Sched.tla at receive #{k + 1}: code {polls[k] if k < len(polls) else None}, "
                     f"spec {exp['polls'][k] if k < len(exp['polls']) else None} {ctx}"[:500])
        want = "ok" if exp["verdict"] == "ok" else "err"
        if r["verdict"] != want:
            probs.append(("C05", f"verdict {r['verdict']}, Sched.tla ends with {exp['verdict']}"))
        marks = {}
        for l in r["markers"].splitlines():
            if l.startswith("m"):
                marks[int(l[1:])] = marks.get(int(l[1:]), 0) + 1
        for f in range(1, sc["nf"] + 1):
            if marks.get(f, 0) != exp["cmdRuns"][f - 1]:
                probs.append(("C03", f"command of f{f} ran {marks.get(f, 0)} times, Sched.tla says {exp['cmdRuns'][f - 1]}"))
            if r["fresh"][str(f)] != (exp["disk"][f - 1] == "fresh") and r["verdict"] == "ok":
                probs.append(("C02", f"output of f{f} fresh={r['fresh'][str(f)]}, Sched.tla says disk={exp['disk'][f - 1]}"))
        for p, msg in probs:
            if p == prop:
                rep.violation(key, msg + " " + ctx, dict(scenario=sc, expected=exp, observed={k: v for k, v in r.items() if k != 'events'}, events=r["events"]))
            else:
                rep.note(f"(belongs to {p}) {msg} {ctx}"[:400])
    rep.coverage["tlc_behaviours_replayed_into_impl"] = replayed
    return replayed
