---------------------------- MODULE MCTagInject ----------------------------
(* TLC driver for TagInject.tla: every setup (sequence of create / store steps over a small   *)
(* name alphabet, including equal, prefix-related and overlapping names and a create while    *)
(* another tag is waiting) x every target line up to a length bound x both line endings.      *)
(* Checks determinism (independence of the hash-map order), operational = declarative, and    *)
(* prints the expected results of every case for the conformance harness.                     *)
EXTENDS TagInject, Json, TLCExt, SequencesExt

CONSTANTS NameSet,     \* tag names
          MaxTags,     \* setups create at most this many tags
          LineAlpha,   \* characters of target lines
          MaxLine,     \* maximal length of a target line
          EmitTables,
          Part, Parts  \* this process handles setups with index % Parts = Part

Contents == << "", "a", "ab", "b\n", "a\nb", "x\r\ny\r\n", "\n", "ba" >>
NameSeq == SetToSeq(NameSet)

\* a setup: names (possibly repeated), which content each gets, which creates are followed by a store
Setups == { [names |-> ns, cv |-> cv, skip |-> sk] :
              ns \in UNION {[1..k -> NameSet] : k \in 0..MaxTags}, cv \in 0..3, sk \in 0..MaxTags }
SetupSeq == SetToSeq({s \in Setups : s.skip <= Len(s.names)})

RECURSIVE Strs(_, _)
Strs(A, n) == IF n = 0 THEN {""} ELSE Strs(A, n - 1) \cup {s \o a : s \in Strs(A, n - 1), a \in A}
Lines == Strs(LineAlpha, MaxLine)
Probe == JoinS(NameSeq, "|")

VARIABLES six
Init == six \in {i \in 1..Len(SetupSeq) : i % Parts = Part}
Next == UNCHANGED six
Spec == Init /\ [][Next]_six

\* run the setup: create(name) then store(content) unless this is the skipped position
RECURSIVE RunSetup(_, _, _, _)
RunSetup(su, i, st, log) ==
  IF i > Len(su.names) THEN [st |-> st, log |-> log]
  ELSE LET c == Create(st, su.names[i])
           content == Contents[((i + su.cv) % Len(Contents)) + 1]
       IN IF i = su.skip
            THEN RunSetup(su, i + 1, c.st, log \o << <<"create", su.names[i], c.ok>> >>)
            ELSE LET t == TryStore(c.st, content) IN
                 RunSetup(su, i + 1, t.st, log \o << <<"create", su.names[i], c.ok>>, <<"store", content, t.ok>> >>)

After == RunSetup(SetupSeq[six], 1, Empty, <<>>)

Case(line, le) ==
  LET st == After.st
      r1 == Inject(st, line, le)
      r2 == Inject(r1.st, Probe, le)
  IN [line |-> line, le |-> le, out |-> r1.out, probe |-> r2.out, has |-> HasTags(r1.st), has2 |-> HasTags(r2.st)]

\* properties checked on every case
StoreOK == PrefixFree(After.st)
InjectOK == \A line \in Lines, le \in {"\n", "\r\n"} :
              LET st == After.st IN
              /\ Deterministic(st, line, le)
              /\ Inject(st, line, le) = DeclInject(st, line, le)
              \* a substituted tag no longer exists, the others are untouched
              /\ LET r == Inject(st, line, le) IN
                 /\ DOMAIN r.st.stored \subseteq DOMAIN st.stored
                 /\ \A k \in DOMAIN st.stored \ DOMAIN r.st.stored : Find(line, k) > 0
                 /\ \A k \in DOMAIN r.st.stored : r.st.stored[k] = st.stored[k]
                 \* a line without any tag name is untouched
                 /\ (\A k \in DOMAIN st.stored : Find(line, k) = 0) => r.out = line /\ r.st = st
                 \* every terminator of the result is the file's
                 /\ (le = "\n" => Find(r.out, "\r") = 0)

Emit == EmitTables =>
   PrintT(<<"TAGS", ToJson([setup |-> After.log,
                            cases |-> SetToSeq({Case(line, le) : line \in Lines, le \in {"\n", "\r\n"}})])>>)
=============================================================================
