------------------------------ MODULE RunTrace ------------------------------
(* C17: every invocation of the shell recorded by a probe shell (argv, working directory,       *)
(* TXTPP_FILE) during a real run must be the invocation PpCore.tla prescribes for the next run  *)
(* directive of the source it names: argv = configured shell arguments + the argument lines     *)
(* joined by single spaces, cwd = the directory of the source, TXTPP_FILE designating the       *)
(* source; at the end the verdict and the outputs must be the prescribed ones (stdout becomes   *)
(* the directive output, a non-zero exit status fails the build).                               *)
(*   init   [base, pre, sources: <<[path, dir, lines]>>]   a new run                            *)
(*   probe  [argv, cwd, file]                              one shell invocation                 *)
(*   done   [verdict, outs: <<[path, out]>>]               the run is over                      *)
EXTENDS PpEnv, Json, IOUtils, TLCExt
Rec == ndJsonDeserialize(IOEnv.TRACE)
VARIABLES l, cur, cnt
Ev == Rec[l]
Is(e) == l <= Len(Rec) /\ Rec[l].event = e /\ l' = l + 1

\* what the specification prescribes for one source (LF sources, trailing newline on)
Res(s) == Build(s.lines, Env("\n", TRUE, TRUE, FALSE))
AbsDir(s) == IF s.dir = "" THEN cur.base ELSE cur.base \o "/" \o s.dir
Designates(f, s) == f = s.path \/ f = cur.base \o "/" \o s.path        \* relative to the base directory, or absolute

TInit == /\ Is("init")
         /\ cur' = [base |-> Ev.base, pre |-> Ev.pre, sources |-> Ev.sources]
         /\ cnt' = [i \in 1..Len(Ev.sources) |-> 0]
TProbe == /\ Is("probe")
          /\ \E i \in 1..Len(cur.sources) :
               LET s == cur.sources[i]  k == cnt[i] + 1 IN
               /\ Designates(Ev.file, s)
               /\ k <= Len(Res(s).runs)
               /\ Ev.argv = cur.pre \o <<Res(s).runs[k]>>          \* one argument, lines joined by single spaces
               /\ Ev.cwd = AbsDir(s)
               /\ cnt' = [cnt EXCEPT ![i] = k]
          /\ UNCHANGED cur
TDone == /\ Is("done")
         /\ LET anyErr == \E i \in 1..Len(cur.sources) : Res(cur.sources[i]).err # "" IN
            /\ (Ev.verdict = "ok") = ~anyErr
            /\ ~anyErr => /\ \A i \in 1..Len(cur.sources) : cnt[i] = Len(Res(cur.sources[i]).runs)   \* every command ran
                          /\ \A j \in 1..Len(Ev.outs) : \E i \in 1..Len(cur.sources) :
                                /\ cur.sources[i].path = Ev.outs[j].path
                                /\ Ev.outs[j].out = Res(cur.sources[i]).out                              \* stdout = directive output
            \* a failing command is the last one of its source
            /\ \A i \in 1..Len(cur.sources) : Res(cur.sources[i]).err = "run" => cnt[i] = Len(Res(cur.sources[i]).runs)
         /\ UNCHANGED <<cur, cnt>>
TraceSpec == /\ l = 1 /\ cur = [base |-> "", pre |-> <<>>, sources |-> <<>>] /\ cnt = <<>>
             /\ [][TInit \/ TProbe \/ TDone]_<<l, cur, cnt>>
TraceAccepted == LET d == TLCGet("stats").diameter IN
                 IF d - 1 = Len(Rec) THEN TRUE ELSE Print(<<"TRACE REJECTED at event", d, Rec[d]>>, FALSE)
=============================================================================
