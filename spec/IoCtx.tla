------------------------------- MODULE IoCtx -------------------------------
(***************************************************************************)
(* What reaches the disk in each mode (src/fs/io_context.rs): the output   *)
(* of a pass is a sequence of chunks handed to write_output, followed by   *)
(* done().  Files are strings; "none" stands for a missing file.           *)
(*   Build        File::create, stream the chunks, flush                   *)
(*   Needed       collect in memory; at done() write only if different     *)
(*   Verify       compare chunk by chunk against the existing file using a *)
(*                remaining-bytes counter; never write                     *)
(*   temp files   in every mode but clean: write only if different         *)
(* TLC checks, for every existing file and every chunking within the       *)
(* bounds, the statements of C06 / C08 / C09 that rest on this mechanism.  *)
(***************************************************************************)
EXTENDS Naturals, Sequences, FiniteSets, TLC

CONSTANTS MaxFile, MaxChunks, MaxChunk
Alphabet == {"a", "b"}
RECURSIVE Strs(_)
Strs(n) == IF n = 0 THEN {""} ELSE Strs(n - 1) \cup {s \o c : s \in Strs(n - 1), c \in Alphabet}
None == <<"none">>
Some(s) == <<"some", s>>
Files == {None} \cup {Some(s) : s \in Strs(MaxFile)}
ChunkSeqs == UNION {[1..k -> Strs(MaxChunk)] : k \in 0..MaxChunks}
RECURSIVE Flat(_)
Flat(cs) == IF cs = <<>> THEN "" ELSE Head(cs) \o Flat(Tail(cs))
StartsWith(s, p) == Len(p) <= Len(s) /\ SubSeq(s, 1, Len(p)) = p

\* ---- verify, code-shaped: rem = file length; per chunk: rem < len -> fail; read_exact; compare; rem -= len; done: rem # 0 -> fail
RECURSIVE VerifyFrom(_, _, _, _)
VerifyFrom(bytes, pos, rem, cs) ==
  IF cs = <<>> THEN rem = 0
  ELSE LET c == Head(cs)  n == Len(c) IN
       IF rem < n THEN FALSE
       ELSE IF SubSeq(bytes, pos, pos + n - 1) # c THEN FALSE
       ELSE VerifyFrom(bytes, pos + n, rem - n, Tail(cs))
Verify(file, cs) == IF file = None THEN FALSE ELSE VerifyFrom(file[2], 1, Len(file[2]), cs)

\* ---- the three writers: result = [file after, touched]
Build(file, cs) == [after |-> Some(Flat(cs)), touched |-> TRUE]
Needed(file, cs) == IF file = Some(Flat(cs)) THEN [after |-> file, touched |-> FALSE]
                    ELSE [after |-> Some(Flat(cs)), touched |-> TRUE]
TempWrite(file, contents) == IF file = Some(contents) THEN [after |-> file, touched |-> FALSE]
                             ELSE [after |-> Some(contents), touched |-> TRUE]

VARIABLES file, chunks
Init == file \in Files /\ chunks \in ChunkSeqs
Next == UNCHANGED <<file, chunks>>
Spec == Init /\ [][Next]_<<file, chunks>>

\* C06: verify passes exactly when the file is what a build would write, however the output is chunked
VerifyExact == Verify(file, chunks) = (file = Some(Flat(chunks)))
\* C08: the result of a build does not depend on what was there
BuildForgets == \A f2 \in {None, Some("ab"), Some("")} : Build(file, chunks).after = Build(f2, chunks).after
\* C09: needed ends where build ends, and touches the file iff it was not already right
NeededEquiv == /\ Needed(file, chunks).after = Build(file, chunks).after
               /\ Needed(file, chunks).touched = (file # Some(Flat(chunks)))
TempNoRewrite == LET t == TempWrite(file, Flat(chunks)) IN t.after = Some(Flat(chunks)) /\ t.touched = (file # Some(Flat(chunks)))
=============================================================================
