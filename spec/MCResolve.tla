----------------------------- MODULE MCResolve -----------------------------
(* TLC driver for Resolve.tla on the fixed tree of lib/resolve_engine.py: every input list of at  *)
(* most MaxIn expressions x recursive on/off x build/clean; prints the expected verdict, set of   *)
(* processed sources and output paths of every case, and checks the naming statements.            *)
EXTENDS Resolve, Json, TLCExt, SequencesExt

CONSTANTS MaxIn, Part, Parts

TreeFiles == [d \in {"", "sub", "sub/deep", "other", "mid", "mid/leaf"} |->
   CASE d = "" -> {"a.txt.txtpp", "c.txtpp", ".e.txtpp", "a.b.txtpp.c", "i.txt.txtpp.bak", "txtpp", ".txtpp",
                   "h.txtpp.tar.gz", "a.txt.TXTPP", "plain.txt", "a.c", "i.bak"}
     [] d = "sub" -> {"b.txtpp.txt", "x.md.txtpp", ".txtpp.f"}
     [] d = "sub/deep" -> {"d.md.txtpp", "z.txtpp"}
     [] d = "other" -> {"o.txt.txtpp"}
     [] d = "mid" -> {"note.md"}                       \* a directory without sources on the way to one that has some
     [] d = "mid/leaf" -> {"q.txtpp"}]
TreeSubs == [d \in {"", "sub", "sub/deep", "other", "mid", "mid/leaf"} |->
   CASE d = "" -> {"sub", "other", "mid"} [] d = "sub" -> {"deep"} [] d = "mid" -> {"leaf"} [] OTHER -> {}]
AllSources == UNION {Scan(d, FALSE, 0) : d \in {"", "sub", "sub/deep", "other", "mid", "mid/leaf"}}
TreeDeps == [p \in AllSources |->
   CASE p = "a.txt.txtpp" -> {"sub/b.txtpp.txt"}
     [] p = "sub/b.txtpp.txt" -> {"sub/deep/d.md.txtpp"}
     [] p = "other/o.txt.txtpp" -> {"c.txtpp"}
     [] OTHER -> {}]

Exprs == << ".", "sub", "sub/deep", "other", "a.txt", "a.txt.txtpp", "./a.txt", "sub/../a.txt.txtpp", "c", "c.txtpp",
            ".e", "a.b.c", "a.b.txtpp.c", "i.txt.bak", "sub/b.txt", "sub/b.txtpp.txt", "sub/x.md", "sub/deep/z",
            "other/../c", "plain.txt", "missing.txt", "missing.txtpp", "txtpp", "h.txtpp.tar.gz", "other/../sub/", "sub/deep/../x.md.txtpp",
            "a.c", ".txtpp", "sub/.txtpp.f", "sub/deep/d.md", "mid", "mid/leaf/q" >>

VARIABLES ins, rec, mode
Init == /\ ins \in {s \in UNION {[1..k -> 1..Len(Exprs)] : k \in 0..MaxIn} : (IF s = <<>> THEN 0 ELSE s[1]) % Parts = Part}
        /\ rec \in BOOLEAN /\ mode \in {"build", "clean"}
Next == UNCHANGED <<ins, rec, mode>>
Spec == Init /\ [][Next]_<<ins, rec, mode>>
Inputs == [i \in 1..Len(ins) |-> Exprs[ins[i]]]
Res == Run(Inputs, rec, mode)

\* naming statements of C11 on every name of the tree
NameOK == \A d \in DOMAIN TreeFiles : \A n \in TreeFiles[d] :
   /\ IsTxtpp(n) => /\ ~IsTxtpp(OutputName(n)) \/ n = OutputName(n) \o ".txtpp"
                    /\ \E i \in 1..Len(SourceCands(OutputName(n))) : SourceCands(OutputName(n))[i] = n   \* asking for the output finds the source
   /\ n \in {"txtpp", ".txtpp", "h.txtpp.tar.gz", "a.txt.TXTPP", "plain.txt", ".txtpp.f", "a.c", "i.bak"} => ~IsTxtpp(n)
Shapes == /\ OutputName("foo.ext.txtpp") = "foo.ext" /\ OutputName("foo.txtpp.ext") = "foo.ext" /\ OutputName("foo.txtpp") = "foo"
          /\ OutputName("a.b.txtpp.c") = "a.b.c" /\ OutputName("a.b.c.txtpp") = "a.b.c" /\ OutputName(".e.txtpp") = ".e"
          /\ OutputName("i.txt.txtpp.bak") = "i.txt.bak"
\* naming the same file several ways, or finding it by a scan as well, processes it once: the result is a set
Emit == PrintT(<<"RCASE", ToJson([inputs |-> Inputs, rec |-> rec, mode |-> mode, verdict |-> Res.verdict,
                                  processed |-> SetToSeq(Res.processed),
                                  outputs |-> SetToSeq({OutputPath(p) : p \in Res.processed})])>>)
=============================================================================
