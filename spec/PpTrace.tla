------------------------------ MODULE PpTrace ------------------------------
(***************************************************************************)
(* I->S trace validation of the line machine: the `ppstep` hook reports,   *)
(* after every iteration of Pp::run_internal's loop, the line consumed,    *)
(* the text handed to the output and the machine's control state           *)
(* (add_newline_before_next_output, directive pending, tail line pending,  *)
(* pass mode, tags pending).  Every reported step must be the step         *)
(* PpCore.tla takes on that line from the state it is in, with the same    *)
(* control state afterwards.                                               *)
(*   case    [le, tr]                     a new source (environment PpEnv) *)
(*   pass    [first]                      a pass over it begins            *)
(*   step    [input, wrote, addnl, indir, tail, mode, tags]                *)
(*   result  [r]                          ok | hasdeps | err               *)
(***************************************************************************)
EXTENDS PpEnv, Json, IOUtils, TLCExt
Rec == ndJsonDeserialize(IOEnv.TRACE)
VARIABLES l, env, st, pend, eof
Ev == Rec[l]
Is(e) == l <= Len(Rec) /\ Rec[l].event = e /\ l' = l + 1
IsNull(x) == x = "<null>"          \* the recorder writes JSON null as this string

ModeName(s) == IF s.mode = "collect" THEN "collect" ELSE s.mode
\* the control state reported by the hook agrees with the specification's state s
Agrees(s, p) == /\ s.err = ""
                /\ s.addNl = Ev.addnl
                /\ (s.cur # <<>>) = Ev.indir
                /\ p = Ev.tail
                /\ ModeName(s) = Ev.mode
                /\ T!HasTags(s.tags) = Ev.tags
\* what reached the output in this step is what the hook saw being written
Wrote(s0, s1) == IF IsExec(s1) /\ ~IsNull(Ev.wrote)
                   THEN s1.out = s0.out \o (IF s0.addNl THEN env.le ELSE "") \o Ev.wrote
                   ELSE s1.out = s0.out

TCase == /\ Is("case") /\ env' = Env(Ev.le, Ev.tr, Ev.tr, FALSE)
         /\ st' = Init0("first") /\ pend' = FALSE /\ eof' = FALSE
TPass == /\ Is("pass") /\ st' = Init0(IF Ev.first THEN "first" ELSE "exec") /\ pend' = FALSE /\ eof' = FALSE
         /\ UNCHANGED env
\* a source line
TLine == /\ Is("step") /\ ~IsNull(Ev.input)
         /\ LET x == Ev.input IN
            IF pend \/ st.cur = <<>>
              THEN \* an ordinary iteration, or the tail line being processed after its directive was executed
                   /\ st' = Fresh(st, x, env) /\ pend' = FALSE
              ELSE LET a == G!AddLine(st.cur[1], x) IN
                   IF a.ok THEN /\ st' = [st EXCEPT !.cur = <<[st.cur[1] EXCEPT !.args = Append(@, a.arg)]>>] /\ pend' = FALSE
                   ELSE \* the directive ends here and is executed; the line stays pending as tail
                        /\ st' = Exec([st EXCEPT !.cur = <<>>], st.cur[1], TRUE, env) /\ pend' = TRUE
         /\ Agrees(st', pend') /\ Wrote(st, st')
         /\ UNCHANGED <<env, eof>>
\* end of file: a pending directive is executed (one step), then the loop is left (one step)
TEof == /\ Is("step") /\ IsNull(Ev.input)
        /\ IF st.cur # <<>>
             THEN /\ st' = Exec([st EXCEPT !.cur = <<>>], st.cur[1], FALSE, env) /\ eof' = FALSE
             ELSE /\ st' = st /\ eof' = TRUE
        /\ pend' = FALSE
        /\ Agrees(st', FALSE) /\ Wrote(st, st')
        /\ UNCHANGED env
TResult == /\ Is("result")
           /\ IF eof THEN LET f == Finish(st, env) IN
                          /\ (Ev.r = "err") = (f.err # "")
                          /\ (Ev.r = "hasdeps") = (f.err = "" /\ f.mode = "collect")
              ELSE Ev.r = "err"          \* the pass stopped in the middle of an iteration: only an error does that
           /\ UNCHANGED <<env, st, pend, eof>>
TraceNext == TCase \/ TPass \/ TLine \/ TEof \/ TResult
TraceSpec == /\ l = 1 /\ env = Env("\n", TRUE, TRUE, FALSE) /\ st = Init0("first") /\ pend = FALSE /\ eof = FALSE
             /\ [][TraceNext]_<<l, env, st, pend, eof>>
TraceAccepted == LET d == TLCGet("stats").diameter IN
                 IF d - 1 = Len(Rec) THEN TRUE ELSE Print(<<"TRACE REJECTED at event", d, Rec[d]>>, FALSE)
=============================================================================
