------------------------------- MODULE MCPp -------------------------------
(* TLC driver for PpCore.tla: every source made of at most MaxLen lines of the catalogue, under  *)
(* both line endings and both settings of the trailing-newline option.  Checks the declarative  *)
(* statements of C13, C16, C12 on every source and prints the expected result of every case      *)
(* (output bytes, temp files, commands run, verdict) for the byte-level conformance harness.     *)
EXTENDS PpEnv, Json, TLCExt, SequencesExt, IOUtils

CONSTANTS MaxLen,      \* sources have at most this many lines
          First,       \* 0: only the empty source; k > 0: sources whose first line is Catalogue[k]; a number above the catalogue length: the sources listed in the file $PP_EXTRA
          EmitCases

Catalogue == <<
   "x", "", "  y", "x A y B", "AB", " \t",
   "-TXTPP#run sh pa", "-TXTPP#run echo a", "  -TXTPP#run sh ab", "-TXTPP#run true", "-TXTPP#run sh x3",
   "TXTPP#run echo a", "\t// TXTPP#run sh cr", "-TXTPP#run cat t1",
   "TXTPP#include p1", "TXTPP#include p2", "  TXTPP#include p3", "TXTPP#include e0", "TXTPP#include nx",
   "TXTPP#include d1", "TXTPP#include pc", "-TXTPP#after d1",
   "TXTPP#tag A", "TXTPP#tag B", "TXTPP#tag AB",
   "-TXTPP#write q", "-TXTPP#write", "-", "-A", " r", "-TXTPP#run", "-TXTPP#temp bad.txtpp",
   "// TXTPP#temp t1", "// c", "//", "   d", "-TXTPP#", "TXTPP#runx", "-TXTPP#write  TXTPP#tag A", "TXTPP#include p4",
   "-TXTPP#temp sub/t2", "TXTPP#include t1", "  TXTPP#tag A", "\t-TXTPP#write  q r ", "-TXTPP#temp p2",
   "TXTPP#include pm", "-TXTPP#run sh mx" >>
NL == Len(Catalogue)

VARIABLE src
Seqs(n) == UNION {[1..k -> 1..NL] : k \in 0..n}
\* explicitly listed sources (one JSON array of catalogue indices per line): structured families beyond MaxLen
Extra == IF First > NL THEN ToSet(ndJsonDeserialize(IOEnv.PP_EXTRA)) ELSE {}
Init == src \in (IF First = 0 THEN {<<>>} ELSE IF First > NL THEN Extra ELSE {<<First>> \o s : s \in Seqs(MaxLen - 1)})
Next == UNCHANGED src
Spec == Init /\ [][Next]_src
Lines == [i \in 1..Len(src) |-> Catalogue[src[i]]]

R(le, tr) == Build(Lines, Env(le, tr, tr, FALSE))
LEs == {"\n", "\r\n"}

-----------------------------------------------------------------------------
\* the last source line is processed as ordinary text (it is neither a directive nor swallowed as a
\* continuation line) by the pass that produces the output
FinalMode(env) == IF Pass(Lines, "first", env).mode = "collect" THEN "exec" ELSE "first"
BeforeLast(env) == Steps(Init0(FinalMode(env)), SubSeq(Lines, 1, Len(Lines) - 1), 1, env)
LastIsText(env) ==
  /\ Len(Lines) > 0
  /\ LET pre == BeforeLast(env)  last == Lines[Len(Lines)] IN
     /\ pre.err = "" /\ IsExec(pre) /\ ~G!Detect(last).dir
     /\ (pre.cur = <<>> \/ ~G!AddLine(pre.cur[1], last).ok)
\* what that line contributes: itself, with tags substituted
LastText(env) ==
  LET pre == BeforeLast(env)  last == Lines[Len(Lines)]
      st == IF pre.cur = <<>> THEN pre ELSE Exec([pre EXCEPT !.cur = <<>>], pre.cur[1], TRUE, env)
  IN T!Inject(st.tags, last, env.le).out

\* C13: the option controls one final line ending and nothing else (directive inputs held fixed, D15)
C13 == \A le \in LEs, dn \in BOOLEAN :
         LET on == Build(Lines, Env(le, TRUE, dn, FALSE))  off == Build(Lines, Env(le, FALSE, dn, FALSE)) IN
         /\ on.err = off.err /\ on.temps = off.temps /\ on.runs = off.runs
         /\ on.err = "" => (on.out = off.out \/ on.out = off.out \o le)
         \* a source that ends with an ordinary text line: that line, then exactly one line ending
         /\ (on.err = "" /\ LastIsText(Env(le, TRUE, dn, FALSE))) => (on.out = off.out \o le /\ EndsWith(off.out, LastText(Env(le, FALSE, dn, FALSE))))

\* C12: every terminator in the output and in the temp files is the file's line ending
NoForeignLE(s, le) ==
  IF le = "\n" THEN T!Find(s, "\r") = 0
  ELSE \A i \in 1..Len(s) : (Ch(s, i) = "\n" => (i > 1 /\ Ch(s, i - 1) = "\r")) /\ (Ch(s, i) = "\r" => (i < Len(s) /\ Ch(s, i + 1) = "\n"))
C12 == \A le \in LEs : LET r == R(le, TRUE) IN
         r.err = "" => NoForeignLE(r.out, le) /\ \A i \in 1..Len(r.temps) : NoForeignLE(r.temps[i][2], le)

\* C16: a source without any directive line is reproduced line for line
NoDirective == \A i \in 1..Len(Lines) : ~G!Detect(Lines[i]).dir
C16Identity == NoDirective =>
   \A le \in LEs : /\ R(le, TRUE).err = "" /\ R(le, TRUE).out = JoinS(Lines, le) \o (IF Len(Lines) > 0 THEN le ELSE "")
                   /\ R(le, FALSE).out = JoinS(Lines, le)
\* C16: text emitted by write is inert: escaping a text with a write block reproduces it
Escape(text) == [i \in 1..Len(text) |-> IF i = 1 THEN "-TXTPP#write " \o text[1] ELSE "-" \o text[i]]
Escapable == Len(Lines) > 0 /\ Lines[1] = G!Trim(Lines[1]) /\ \A i \in 1..Len(Lines) : Lines[i] = G!TrimEnd(Lines[i])
C16RoundTrip == Escapable =>
   \A le \in LEs : LET r == Build(Escape(Lines), Env(le, FALSE, FALSE, FALSE)) IN
                   r.err = "" /\ r.out = JoinS(Lines, le) /\ r.runs = <<>> /\ r.temps = <<>>

\* totality (C18 at the design level): every source has a verdict
Total == \A le \in LEs, tr \in BOOLEAN : R(le, tr).err \in {"", "run", "include", "temp", "tag", "tags", "noprefix"}

Case(le, tr) == LET r == R(le, tr)  p1 == Pass(Lines, "first", Env(le, tr, tr, FALSE)) IN
   [le |-> le, tr |-> tr, err |-> r.err, out |-> r.out, temps |-> r.temps, runs |-> r.runs,
    first |-> IF p1.err # "" THEN "err" ELSE IF p1.mode = "collect" THEN "hasdeps" ELSE "ok"]
CleanCase == LET r == Pass(Lines, "first", Env("\n", TRUE, TRUE, TRUE)) IN [removed |-> r.removed, err |-> r.err]
Emit == EmitCases =>
   PrintT(<<"CASE", ToJson([src |-> Lines, ix |-> src,
                            res |-> <<Case("\n", TRUE), Case("\n", FALSE), Case("\r\n", TRUE), Case("\r\n", FALSE)>>,
                            clean |-> CleanCase])>>)
=============================================================================
