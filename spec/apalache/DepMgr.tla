------------------------------- MODULE DepMgr -------------------------------
(***************************************************************************)
(* The dependency manager alone (src/core/util/dependency.rs), as an       *)
(* inductive-invariant problem for Apalache: under ANY sequence of         *)
(* add_dependency / notify_finish calls (not only those the coordinator    *)
(* issues) the counter of a depender equals the number of its edges, so    *)
(* the unwrap() in notify_finish cannot fail and a depender is released    *)
(* exactly when its last unfinished dependency finishes.                   *)
(* Checked with:                                                           *)
(*   apalache-mc check --init=Init --inv=IndInv --length=0 DepMgr.tla      *)
(*   apalache-mc check --init=IndInit --inv=IndInv --length=1 DepMgr.tla   *)
(***************************************************************************)
EXTENDS Integers, FiniteSets

Files == 1..5

VARIABLES
  \* @type: Int -> Int;
  outCnt,
  \* @type: Int -> Set(Int);
  inEdges,
  \* @type: Set(Int);
  finished,
  \* @type: Set(Int);
  released,     \* ghost: dependers handed back by notify_finish so far
  \* @type: Set(Int);
  lastCand,     \* ghost: the dependers of the file notified last
  \* @type: Set(Int);
  lastRel       \* ghost: those of them that were handed back

\* @type: (Int) => Int;
Edges(a) == Cardinality({d \in Files : a \in inEdges[d]})

Init ==
  /\ outCnt = [f \in Files |-> 0]
  /\ inEdges = [f \in Files |-> {}]
  /\ finished = {}
  /\ released = {} /\ lastCand = {} /\ lastRel = {}

\* add_dependency(f, ds)
AddDep(f, ds) ==
  LET new == ds \ finished IN
  /\ outCnt' = [outCnt EXCEPT ![f] = @ + Cardinality({d \in new : f \notin inEdges[d]})]
  /\ inEdges' = [d \in Files |-> IF d \in new THEN inEdges[d] \union {f} ELSE inEdges[d]]
  /\ lastCand' = {} /\ lastRel' = {}
  /\ UNCHANGED <<finished, released>>

\* notify_finish(f)
Notify(f) ==
  /\ finished' = finished \union {f}
  /\ inEdges' = [inEdges EXCEPT ![f] = {}]
  /\ outCnt' = [a \in Files |-> IF a \in inEdges[f] THEN (IF outCnt[a] <= 1 THEN 0 ELSE outCnt[a] - 1) ELSE outCnt[a]]
  /\ released' = released \union {a \in inEdges[f] : outCnt[a] <= 1}
  /\ lastCand' = inEdges[f]
  /\ lastRel' = {a \in inEdges[f] : outCnt[a] <= 1}

Next ==
  \/ \E f \in Files : \E ds \in SUBSET Files : AddDep(f, ds)
  \/ \E f \in Files : Notify(f)

\* the inductive invariant
TypeOK ==
  /\ outCnt \in [Files -> 0..5]
  /\ inEdges \in [Files -> SUBSET Files]
  /\ finished \in SUBSET Files
  /\ released \in SUBSET Files
  /\ lastCand \in SUBSET Files
  /\ lastRel \in SUBSET Files
IndInv ==
  /\ TypeOK
  /\ \A a \in Files : outCnt[a] = Edges(a)                 \* the counter is the number of edges: unwrap() is safe
  /\ \A d \in finished : inEdges[d] = {}                   \* no edge points at a finished file
  \* a depender of the file just notified is handed back exactly when no unfinished dependency is left
  /\ \A a \in lastCand : (a \in lastRel) <=> (Edges(a) = 0)
IndInit == IndInv
=============================================================================
