----------------------------- MODULE TagInject -----------------------------
(***************************************************************************)
(* The tag store (C14): src/core/util/tag_state.rs and the line-ending     *)
(* normalisation it uses (src/core/util/string.rs).                        *)
(* State: [listening |-> <<>> or <<name>>, stored |-> function name->text] *)
(* Stored text is the raw output of a directive: a string that may contain *)
(* "\n" and "\r\n".                                                        *)
(***************************************************************************)
EXTENDS Naturals, Sequences, FiniteSets, TLC

LOCAL Ch(s, i) == SubSeq(s, i, i)
LOCAL StartsWith(s, p) == Len(p) <= Len(s) /\ SubSeq(s, 1, Len(p)) = p
LOCAL Drop(s, n) == SubSeq(s, n + 1, Len(s))
Find(s, p) == LET c == {i \in 1..(Len(s) + 1) : i + Len(p) - 1 <= Len(s) /\ SubSeq(s, i, i + Len(p) - 1) = p}
              IN IF c = {} THEN 0 ELSE CHOOSE i \in c : \A j \in c : i <= j
EndsWithNl(s) == Len(s) > 0 /\ Ch(s, Len(s)) = "\n"

\* Rust's str::lines(): split at "\n", a "\r" directly before the "\n" belongs to the terminator,
\* a final empty piece is not a line
RECURSIVE SplitNl(_)
SplitNl(s) == LET i == Find(s, "\n") IN
              IF i = 0 THEN <<s>> ELSE <<SubSeq(s, 1, i - 1)>> \o SplitNl(Drop(s, i))
StripCR(s) == IF Len(s) > 0 /\ Ch(s, Len(s)) = "\r" THEN SubSeq(s, 1, Len(s) - 1) ELSE s
RustLines(s) == LET p == SplitNl(s)
                    n == Len(p)
                    q == [i \in 1..n |-> IF i < n THEN StripCR(p[i]) ELSE p[i]]   \* only terminated pieces lose the CR
                IN IF q[n] = "" THEN SubSeq(q, 1, n - 1) ELSE q
RECURSIVE JoinS(_, _)
JoinS(ss, sep) == IF ss = <<>> THEN "" ELSE IF Len(ss) = 1 THEN ss[1] ELSE ss[1] \o sep \o JoinS(Tail(ss), sep)
\* replace_line_ending(le, false): every terminator becomes le, a final terminator is kept
NormLE(s, le) == JoinS(RustLines(s), le) \o (IF EndsWithNl(s) THEN le ELSE "")

Empty == [listening |-> <<>>, stored |-> <<>>]
HasTags(st) == st.listening # <<>> \/ DOMAIN st.stored # {}
PrefixRelated(a, b) == StartsWith(a, b) \/ StartsWith(b, a)

\* create: error while another tag is listening, or when the name equals / prefixes / is prefixed
\* by a stored tag (README "Tag Directive")
CanCreate(st, name) == st.listening = <<>> /\ \A k \in DOMAIN st.stored : ~PrefixRelated(k, name)
Create(st, name) == IF CanCreate(st, name) THEN [ok |-> TRUE, st |-> [st EXCEPT !.listening = <<name>>]]
                    ELSE [ok |-> FALSE, st |-> st]
\* try_store: the listening tag captures the output
TryStore(st, text) ==
  IF st.listening = <<>> THEN [ok |-> FALSE, st |-> st]
  ELSE [ok |-> TRUE,
        st |-> [listening |-> <<>>,
                stored |-> [k \in DOMAIN st.stored \cup {st.listening[1]} |->
                               IF k = st.listening[1] THEN text ELSE st.stored[k]]]]

-----------------------------------------------------------------------------
\* operational, code-shaped: first occurrence of every stored tag, in the iteration order of the
\* map (perm), stably sorted by position, walked left to right skipping what overlaps
Occs(st, line, perm) == SelectSeq([i \in 1..Len(perm) |-> <<Find(line, perm[i]), perm[i]>>], LAMBDA o : o[1] > 0)
RECURSIVE InsertSorted(_, _)
InsertSorted(sorted, o) ==   \* stable: goes after every element with index <= its own
  IF sorted = <<>> THEN <<o>>
  ELSE IF Head(sorted)[1] <= o[1] THEN <<Head(sorted)>> \o InsertSorted(Tail(sorted), o)
  ELSE <<o>> \o sorted
RECURSIVE SortOccs(_, _)
SortOccs(acc, rest) == IF rest = <<>> THEN acc ELSE SortOccs(InsertSorted(acc, Head(rest)), Tail(rest))
RECURSIVE Walk(_, _, _, _, _, _)
\* lastEnd is the 1-based index of the first character not yet copied
Walk(st, line, le, occs, lastEnd, acc) ==
  IF occs = <<>> THEN [out |-> acc.out \o Drop(line, lastEnd - 1), used |-> acc.used]
  ELSE LET o == Head(occs) IN
       IF o[1] < lastEnd THEN Walk(st, line, le, Tail(occs), lastEnd, acc)
       ELSE Walk(st, line, le, Tail(occs), o[1] + Len(o[2]),
                 [out |-> acc.out \o SubSeq(line, lastEnd, o[1] - 1) \o NormLE(st.stored[o[2]], le),
                  used |-> acc.used \cup {o[2]}])
InjectP(st, line, le, perm) ==
  LET w == Walk(st, line, le, SortOccs(<<>>, Occs(st, line, perm)), 1, [out |-> "", used |-> {}])
  IN [out |-> w.out, st |-> [st EXCEPT !.stored = [k \in DOMAIN st.stored \ w.used |-> st.stored[k]]]]

Perms(S) == {s \in [1..Cardinality(S) -> S] : \A x \in S : \E i \in 1..Cardinality(S) : s[i] = x}
\* the result the code produces, for an arbitrary iteration order of the hash map
Inject(st, line, le) == InjectP(st, line, le, CHOOSE p \in Perms(DOMAIN st.stored) : TRUE)
\* "The result is identical on every run"
Deterministic(st, line, le) ==
  \A p, q \in Perms(DOMAIN st.stored) : InjectP(st, line, le, p) = InjectP(st, line, le, q)

-----------------------------------------------------------------------------
\* declarative: scan the line from the left; at each point the next substitution is the stored tag
\* whose FIRST occurrence in the line is leftmost among those that start at or after the scan
\* point; a tag whose first occurrence was overlapped is left alone (and stays stored); the
\* substituted text is appended, never scanned
RECURSIVE Scan(_, _, _, _, _)
Scan(st, line, le, pos, used) ==
  LET cand == {k \in DOMAIN st.stored \ used : Find(line, k) >= pos /\ Find(line, k) > 0} IN
  IF cand = {} THEN [out |-> Drop(line, pos - 1), used |-> used]
  ELSE LET k == CHOOSE x \in cand : \A y \in cand : Find(line, x) <= Find(line, y)
           r == Scan(st, line, le, Find(line, k) + Len(k), used \cup {k})
       IN [out |-> SubSeq(line, pos, Find(line, k) - 1) \o NormLE(st.stored[k], le) \o r.out, used |-> r.used]
DeclInject(st, line, le) ==
  LET r == Scan(st, line, le, 1, {}) IN
  [out |-> r.out, st |-> [st EXCEPT !.stored = [k \in DOMAIN st.stored \ r.used |-> st.stored[k]]]]

\* the store never holds prefix-related names (what Create is for)
PrefixFree(st) == \A a, b \in DOMAIN st.stored : a # b => ~PrefixRelated(a, b)
=============================================================================
