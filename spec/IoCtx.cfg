SPECIFICATION Spec
CONSTANTS
  MaxFile = 5
  MaxChunks = 3
  MaxChunk = 2
INVARIANTS VerifyExact BuildForgets NeededEquiv TempNoRewrite
CHECK_DEADLOCK FALSE
