----------------------------- MODULE ResolveObs -----------------------------
(* I->S for C11: runs on randomly generated trees (depth <= 3, the three name shapes, look-alikes, random     *)
(* dependencies) are observed - verdict, sources processed (per-source markers), files created / removed -    *)
(* and every observation must be what Resolve.tla prescribes for that tree.                                   *)
(*   tree  [dirs: <<[path, files, subs]>>, deps: <<[src, on]>>]       a new tree                             *)
(*   run   [inputs, rec, mode, verdict, processed, outputs]            one observed run on it                 *)
EXTENDS Naturals, Sequences, FiniteSets, TLC, Json, IOUtils, TLCExt
VARIABLES l, tf, ts, td
R == INSTANCE Resolve WITH DirFilesR <- tf, DirSubsR <- ts, DepsOf <- td
Rec == ndJsonDeserialize(IOEnv.TRACE)
Ev == Rec[l]
Is(e) == l <= Len(Rec) /\ Rec[l].event = e /\ l' = l + 1
SetOf(s) == {s[i] : i \in 1..Len(s)}
DirRec(d) == CHOOSE x \in SetOf(Ev.dirs) : x.path = d
TTree == /\ Is("tree")
         /\ tf' = [d \in {x.path : x \in SetOf(Ev.dirs)} |-> SetOf(DirRec(d).files)]
         /\ ts' = [d \in {x.path : x \in SetOf(Ev.dirs)} |-> SetOf(DirRec(d).subs)]
         /\ td' = [p \in {x.src : x \in SetOf(Ev.deps)} |-> SetOf((CHOOSE x \in SetOf(Ev.deps) : x.src = p).on)]
TRun == /\ Is("run")
        /\ LET r == R!Run(Ev.inputs, Ev.rec, Ev.mode) IN
           /\ r.verdict = Ev.verdict
           /\ r.verdict = "ok" => /\ SetOf(Ev.processed) = r.processed
                                  /\ SetOf(Ev.outputs) = {R!OutputPath(p) : p \in r.processed}
        /\ UNCHANGED <<tf, ts, td>>
TraceSpec == l = 1 /\ tf = <<>> /\ ts = <<>> /\ td = <<>> /\ [][TTree \/ TRun]_<<l, tf, ts, td>>
TraceAccepted == LET d == TLCGet("stats").diameter IN
                 IF d - 1 = Len(Rec) THEN TRUE ELSE Print(<<"TRACE REJECTED at event", d, Rec[d]>>, FALSE)
=============================================================================
