------------------------------- MODULE Sched -------------------------------
(***************************************************************************)
(* The txtpp coordinator (src/core/execute/mod.rs: Txtpp::run_internal,    *)
(* execute_file, execute_directory, Drop), its thread pool, the mpsc       *)
(* result channel, the dependency manager (src/core/util/dependency.rs)    *)
(* and the progress counters (src/core/util/progress.rs).                  *)
(*                                                                         *)
(* One action per critical section of the code:                            *)
(*   CoordSpawn   one execute_file / execute_directory call                *)
(*   Begin(t)     a pool thread picks task t; File::create truncates       *)
(*   Work(t)      the body of the pass: reads dependency outputs, writes   *)
(*   End(t)       send.send(result)                                        *)
(*   CoordRecv    one iteration of the receive loop that got a result      *)
(*   CoordExit    try_recv = Empty /\ progress.is_done()                   *)
(*   CoordDrop    Drop: threadpool.join(), drain                           *)
(* Ghost variables (disk, finals, cmdRuns, badRead) exist only to state    *)
(* the properties C02-C05.                                                 *)
(***************************************************************************)
EXTENDS Naturals, Sequences, FiniteSets, TLC

CONSTANTS NF,         \* number of .txtpp sources, Files = 1..NF
          N,          \* worker threads
          MaxInputs,  \* maximal length of the input list
          DirFiles,   \* DirFiles[d]: files directly inside directory d   (function on Dirs)
          DirSubs,    \* DirSubs[d]: sub-directories of directory d
          Modes,      \* subset of {"build", "clean"}
          FailKinds,  \* subset of {"none", "pre", "post"}
          MaxFail,    \* at most this many files may fail
          Panics      \* TRUE: a worker may die without sending (negative configuration)

Files == 1..NF
Dirs  == DOMAIN DirFiles
Task(k, x, first) == [kind |-> k, id |-> x, first |-> first]

VARIABLES
  deps,       \* deps[f]: the .txtpp-backed targets of f's include/after directives
  failAt,     \* failAt[f]: "none" | "pre" (fails before its first dependency directive) | "post"
  inputs,     \* requested inputs: Seq of <<"file", f>> | <<"dir", d>>
  recursive,  \* -r
  mode,       \* "build" | "clean"
  pc,         \* coordinator: "spawn" | "loop" | "drop" | "returned"
  todo,       \* pending execute_file / execute_directory calls of the current critical section
  seen,       \* Txtpp.files
  total, done,\* Progress
  queue,      \* pool FIFO: spawned, not yet picked
  working,    \* picked, body not finished
  running,    \* body finished, result not yet sent
  chan,       \* mpsc channel
  outCnt, inEdges, finished,   \* DepManager
  verdict,    \* "none" | "ok" | "err" | "circ"
  disk,       \* ghost: disk[f] \in {"old", "partial", "fresh", "gone"}
  finals,     \* ghost: number of passes of f that ended Ok
  cmdRuns,    \* ghost: executions of a command placed after f's dependency directives
  badRead     \* ghost: <<reader, dep>> pairs where reader may have seen dep incomplete

scen == <<deps, failAt, inputs, recursive, mode>>
vars == <<deps, failAt, inputs, recursive, mode, pc, todo, seen, total, done, queue, working,
          running, chan, outCnt, inEdges, finished, verdict, disk, finals, cmdRuns, badRead>>

SeqsUpTo(S, n) == UNION {[1..k -> S] : k \in 0..n}
Perms(S) == {s \in [1..Cardinality(S) -> S] : \A x \in S : \E i \in 1..Cardinality(S) : s[i] = x}
RangeOf(s) == {s[i] : i \in 1..Len(s)}

\* In clean mode execute_directive returns before dependency collection: no file has deps.
EffDeps(f) == IF mode = "clean" THEN {} ELSE deps[f]
\* In clean mode directive errors are swallowed.
EffFail(f) == IF mode = "clean" THEN "none" ELSE failAt[f]

InputItems == {<<"file", f>> : f \in Files} \cup {<<"dir", d>> : d \in Dirs}

Init ==
  /\ deps \in [Files -> SUBSET Files]
  /\ failAt \in {fa \in [Files -> FailKinds] : Cardinality({f \in Files : fa[f] # "none"}) <= MaxFail}
  /\ inputs \in SeqsUpTo(InputItems, MaxInputs)
  /\ recursive \in (IF Dirs = {} THEN {FALSE} ELSE BOOLEAN)
  /\ mode \in Modes
  /\ pc = "spawn"
     \* resolve_inputs: files first (in input order), then directories
  /\ todo = [i \in 1..Len(SelectSeq(inputs, LAMBDA x : x[1] = "file")) |->
                 <<"file", SelectSeq(inputs, LAMBDA x : x[1] = "file")[i][2], TRUE>>]
            \o [i \in 1..Len(SelectSeq(inputs, LAMBDA x : x[1] = "dir")) |->
                 <<"dir", SelectSeq(inputs, LAMBDA x : x[1] = "dir")[i][2], TRUE>>]
  /\ seen = {} /\ done = 0
  /\ total = Len(SelectSeq(inputs, LAMBDA x : x[1] = "dir"))   \* add_total(inputs.subdirs.len())
  /\ queue = <<>> /\ working = {} /\ running = {} /\ chan = <<>>
  /\ outCnt = [f \in Files |-> 0] /\ inEdges = [f \in Files |-> {}] /\ finished = {}
  /\ verdict = "none"
  /\ disk = [f \in Files |-> "old"] /\ finals = [f \in Files |-> 0]
  /\ cmdRuns = [f \in Files |-> 0] /\ badRead = {}

-----------------------------------------------------------------------------
\* coordinator: one execute_file / execute_directory call
CoordSpawn ==
  /\ pc \in {"spawn", "loop"} /\ todo # <<>>
  /\ LET k == Head(todo)[1]  x == Head(todo)[2]  first == Head(todo)[3] IN
     /\ todo' = Tail(todo)
     /\ IF k = "dir"
          THEN /\ queue' = Append(queue, Task("dir", x, TRUE))     \* total was added by the caller
               /\ UNCHANGED <<seen, total>>
          ELSE IF first /\ x \in seen
                 THEN UNCHANGED <<seen, total, queue>>               \* first-pass dedup
                 ELSE /\ seen' = IF first THEN seen \cup {x} ELSE seen
                      /\ total' = total + 1
                      /\ queue' = Append(queue, Task("file", x, first))
  /\ pc' = IF pc = "spawn" /\ Len(todo) = 1 THEN "loop" ELSE pc
  /\ UNCHANGED <<scen, done, working, running, chan, outCnt, inEdges, finished, verdict,
                 disk, finals, cmdRuns, badRead>>

\* with no inputs at all the spawn phase is empty
CoordSpawnNone ==
  /\ pc = "spawn" /\ todo = <<>>
  /\ pc' = "loop"
  /\ UNCHANGED <<scen, todo, seen, total, done, queue, working, running, chan, outCnt, inEdges,
                 finished, verdict, disk, finals, cmdRuns, badRead>>

-----------------------------------------------------------------------------
\* thread pool: the first N - (busy) queued jobs are picked, in FIFO order
Busy == Cardinality(working) + Cardinality(running)
Ready == {queue[i] : i \in 1..(IF N - Busy < Len(queue) THEN N - Busy ELSE Len(queue))}
RemoveFirst(s, t) == LET i == CHOOSE j \in 1..Len(s) : s[j] = t /\ \A k \in 1..(j-1) : s[k] # t
                     IN SubSeq(s, 1, i-1) \o SubSeq(s, i+1, Len(s))

IsCollect(t) == t.kind = "file" /\ t.first /\ EffDeps(t.id) # {} /\ EffFail(t.id) # "pre"
\* does this pass of a file read the outputs of its dependencies?
ReadsDeps(t) == t.kind = "file" /\ ~t.first

Begin(t) ==
  /\ t \in Ready /\ t \notin working /\ t \notin running
  /\ queue' = RemoveFirst(queue, t)
  /\ working' = working \cup {t}
  /\ IF t.kind = "file"
       THEN LET f == t.id IN
            \* IOCtx::new: File::create truncates (build), remove_file (clean)
            /\ disk' = [disk EXCEPT ![f] = IF mode = "clean" THEN "gone" ELSE "partial"]
            \* somebody who is reading f's output right now sees it change under its feet
            /\ badRead' = badRead \cup {<<u.id, f>> : u \in {u \in working : ReadsDeps(u) /\ f \in deps[u.id]}}
       ELSE UNCHANGED <<disk, badRead>>
  /\ UNCHANGED <<scen, pc, todo, seen, total, done, running, chan, outCnt, inEdges, finished,
                 verdict, finals, cmdRuns>>

ResultOf(t) ==
  IF t.kind = "dir" THEN [k |-> "scandir", id |-> t.id]
  ELSE LET f == t.id IN
       IF t.first /\ EffFail(f) = "pre" THEN [k |-> "err", id |-> f]
       ELSE IF t.first /\ EffDeps(f) # {} THEN [k |-> "hasdeps", id |-> f]
       ELSE IF EffFail(f) # "none" THEN [k |-> "err", id |-> f]
       ELSE [k |-> "ok", id |-> f]

Work(t) ==
  /\ t \in working
  /\ working' = working \ {t}
  /\ running' = running \cup {t}
  /\ IF t.kind = "file"
       THEN LET f == t.id  r == ResultOf(t).k IN
            /\ disk' = [disk EXCEPT ![f] = IF mode = "clean" THEN "gone"
                                           ELSE IF r = "ok" THEN "fresh" ELSE "partial"]
            /\ badRead' = IF ReadsDeps(t)
                            THEN badRead \cup {<<f, d>> : d \in {d \in deps[f] :
                                     \/ disk[d] # "fresh"
                                     \/ \E u \in working \cup running : u.kind = "file" /\ u.id = d /\ u # t
                                     \/ \E i \in 1..Len(queue) : queue[i].kind = "file" /\ queue[i].id = d}}
                            ELSE badRead
            \* a command placed after the dependency directives runs in every pass that is
            \* not a collecting pass and that gets that far
            /\ cmdRuns' = IF mode # "clean" /\ ~IsCollect(t) /\ EffFail(f) # "pre"
                             THEN [cmdRuns EXCEPT ![f] = @ + 1] ELSE cmdRuns
            /\ finals' = IF r = "ok" THEN [finals EXCEPT ![f] = @ + 1] ELSE finals
       ELSE UNCHANGED <<disk, badRead, cmdRuns, finals>>
  /\ UNCHANGED <<scen, pc, todo, seen, total, done, queue, chan, outCnt, inEdges, finished, verdict>>

End(t) ==
  /\ t \in running
  /\ running' = running \ {t}
  /\ chan' = Append(chan, ResultOf(t))
  /\ UNCHANGED <<scen, pc, todo, seen, total, done, queue, working, outCnt, inEdges, finished,
                 verdict, disk, finals, cmdRuns, badRead>>

\* negative configuration only: the thread dies in the body, nothing is ever sent
WorkerPanic(t) ==
  /\ Panics /\ t \in working
  /\ working' = working \ {t}
  /\ UNCHANGED <<scen, pc, todo, seen, total, done, queue, running, chan, outCnt, inEdges,
                 finished, verdict, disk, finals, cmdRuns, badRead>>

-----------------------------------------------------------------------------
\* DepManager::add_dependency(f, deps[f]) -- returns "added"
AddDep(f) ==
  LET new == deps[f] \ finished IN
  /\ outCnt' = [outCnt EXCEPT ![f] = @ + Cardinality({d \in new : f \notin inEdges[d]})]
  /\ inEdges' = [d \in Files |-> IF d \in new THEN inEdges[d] \cup {f} ELSE inEdges[d]]
  /\ UNCHANGED finished
\* DepManager::notify_finish(f) -- the released dependers
Released(f) == {a \in inEdges[f] : outCnt[a] <= 1}
Notify(f) ==
  /\ finished' = finished \cup {f}
  /\ inEdges' = [inEdges EXCEPT ![f] = {}]
  /\ outCnt' = [a \in Files |-> IF a \in inEdges[f]
                                  THEN (IF outCnt[a] <= 1 THEN 0 ELSE outCnt[a] - 1)
                                  ELSE outCnt[a]]

ListedSubs(d) == IF recursive THEN DirSubs[d] ELSE {}

CoordRecv ==
  /\ pc = "loop" /\ todo = <<>> /\ chan # <<>>
  /\ LET r == Head(chan)  x == r.id IN
     /\ chan' = Tail(chan)
     /\ done' = done + 1
     /\ CASE r.k = "err" ->
               /\ verdict' = "err" /\ pc' = "drop"
               /\ UNCHANGED <<todo, total, outCnt, inEdges, finished>>
          [] r.k = "scandir" ->
               /\ total' = total + Cardinality(ListedSubs(x))
               /\ \E fo \in Perms(DirFiles[x]), so \in Perms(ListedSubs(x)) :     \* read_dir order
                    todo' = [i \in 1..Len(fo) |-> <<"file", fo[i], TRUE>>]
                            \o [i \in 1..Len(so) |-> <<"dir", so[i], TRUE>>]
               /\ UNCHANGED <<verdict, pc, outCnt, inEdges, finished>>
          [] r.k = "hasdeps" ->
               /\ AddDep(x)
               /\ IF deps[x] \ finished # {}
                    THEN \E order \in Perms(deps[x]) : todo' = [i \in 1..Len(order) |-> <<"file", order[i], TRUE>>]
                    ELSE todo' = << <<"file", x, FALSE>> >>
               /\ UNCHANGED <<verdict, pc, total>>
          [] r.k = "ok" ->
               /\ Notify(x)
               /\ \E order \in Perms(Released(x)) :                               \* HashSet order
                    todo' = [i \in 1..Len(order) |-> <<"file", order[i], FALSE>>]
               /\ UNCHANGED <<verdict, pc, total>>
  /\ UNCHANGED <<scen, seen, queue, working, running, disk, finals, cmdRuns, badRead>>

\* try_recv = Empty /\ is_done()
CoordExit ==
  /\ pc = "loop" /\ todo = <<>> /\ chan = <<>> /\ done = total
  /\ verdict' = IF \E f \in Files : inEdges[f] # {} THEN "circ" ELSE "ok"
  /\ pc' = "drop"
  /\ UNCHANGED <<scen, todo, seen, total, done, queue, working, running, chan, outCnt, inEdges,
                 finished, disk, finals, cmdRuns, badRead>>

\* Drop: threadpool.join(), then drain what was sent
CoordDrop ==
  /\ pc = "drop" /\ queue = <<>> /\ working = {} /\ running = {}
  /\ pc' = "returned"
  /\ UNCHANGED <<scen, todo, seen, total, done, queue, working, running, chan, outCnt, inEdges,
                 finished, verdict, disk, finals, cmdRuns, badRead>>

Next ==
  \/ CoordSpawn \/ CoordSpawnNone \/ CoordRecv \/ CoordExit \/ CoordDrop
  \/ \E t \in Ready : Begin(t)
  \/ \E t \in working : Work(t) \/ WorkerPanic(t)
  \/ \E t \in running : End(t)

Spec == Init /\ [][Next]_vars /\ WF_vars(Next)

-----------------------------------------------------------------------------
\* Declarative side: what the properties say, in terms of the scenario only.
RECURSIVE ReachVia(_, _, _)
ReachVia(S, E, n) == IF n = 0 THEN S ELSE ReachVia(S \cup UNION {E[f] : f \in S}, E, n - 1)
RECURSIVE DirClosure(_, _)
DirClosure(D, n) == IF n = 0 THEN D ELSE DirClosure(D \cup UNION {ListedSubs(d) : d \in D}, n - 1)
NamedFiles == {x[2] : x \in {y \in RangeOf(inputs) : y[1] = "file"}}
ScannedDirs == DirClosure({x[2] : x \in {y \in RangeOf(inputs) : y[1] = "dir"}}, Cardinality(Dirs))
Requested == NamedFiles \cup UNION {DirFiles[d] : d \in ScannedDirs}
EDeps == [f \in Files |-> EffDeps(f)]
Required == ReachVia(Requested, EDeps, NF)          \* plus transitive dependencies (build/verify)
OnCycle(f) == f \in ReachVia(EDeps[f], EDeps, NF)
ReachesCycle(f) == \E g \in ReachVia({f}, EDeps, NF) : OnCycle(g)
Cyclic == \E f \in Required : ReachesCycle(f)
AnyFail == \E f \in Required : EffFail(f) # "none"
Complete(f) == finals[f] = 1 /\ disk[f] = (IF mode = "clean" THEN "gone" ELSE "fresh")

TypeOK ==
  /\ done <= total
  /\ pc \in {"spawn", "loop", "drop", "returned"}
  /\ verdict \in {"none", "ok", "err", "circ"}
  /\ Busy <= N

\* C03: leaving the loop normally means nothing is outstanding anywhere
ExitQuiescent == (pc \in {"drop", "returned"} /\ verdict \in {"ok", "circ"})
                    => (queue = <<>> /\ working = {} /\ running = {} /\ chan = <<>> /\ todo = <<>>)
\* C03: accounting: total counts spawned tasks (+ directories announced), done counts receipts
Accounting ==
  pc = "loop" /\ todo = <<>> =>
     total - done = Len(queue) + Cardinality(working) + Cardinality(running) + Len(chan)
\* C03: no file is completed twice, no post-dependency command runs twice
AtMostOnce == \A f \in Files : finals[f] <= 1 /\ cmdRuns[f] <= 1
\* C03/C04: success means every required file was completed (and its command ran once)
SuccessComplete == verdict = "ok" =>
     \A f \in Required : Complete(f) /\ (mode # "clean" => cmdRuns[f] = 1)
\* C07 (schedule side): clean never runs a command and never collects dependencies
CleanInert == mode = "clean" => (\A f \in Files : cmdRuns[f] = 0) /\ (\A f \in Files : inEdges[f] = {})
\* C02: no pass ever reads an incomplete, stale or in-flux dependency output
NoBadRead == badRead = {}
\* C04 / C05
NoFalseSuccess == verdict = "ok" => (~AnyFail /\ ~Cyclic)
FailDetected == (pc = "returned" /\ AnyFail) => verdict \in {"err", "circ"}
CycleVerdict == (verdict # "none" /\ ~AnyFail) => (Cyclic <=> verdict = "circ")
NoSpuriousCirc == verdict = "circ" => Cyclic
NoSpuriousErr == verdict = "err" => AnyFail
Bystanders == verdict = "circ" => \A f \in Required : ~ReachesCycle(f) => Complete(f)
\* C18: the unwrap() in notify_finish cannot fail: the counter of a depender is the number of its edges
DepMgrConsistent == \A a \in Files : outCnt[a] = Cardinality({d \in Files : a \in inEdges[d]})
\* only required files are ever touched (C11 at the schedule level)
OnlyRequired == \A f \in Files : (finals[f] > 0 \/ disk[f] # "old") => f \in Required
\* C03 / C05: the run returns
Terminates == <>(pc = "returned")
=============================================================================
