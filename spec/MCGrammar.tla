----------------------------- MODULE MCGrammar -----------------------------
(* TLC driver for Grammar.tla: enumerates every line over the token alphabet of C15 up to   *)
(* MaxTok tokens, and every (directive line, candidate line) pair; checks the equivalence   *)
(* of the operational and declarative definitions and prints the tables that the harness    *)
(* compares with Directive::detect_from / Directive::add_line of the real code.             *)
EXTENDS Grammar, Json, IOUtils, TLCExt, SequencesExt

CONSTANTS MaxTok,      \* bound for detection lines
          MaxCand,     \* bound for candidate continuation lines
          EmitTables,  \* TRUE: print the tables for the conformance harness
          Part, Parts  \* this process handles the lines / directive lines of class Part modulo Parts

Tok == << " ", "\t", "^", "-", "//", "TXTPP#", "TXTPP", "#",
          "include", "after", "run", "temp", "tag", "write", "runx", "x", "~" >>
CandTok == << " ", "\t", "^", "-", "//", "x", "~", "TXTPP#" >>

RECURSIVE Flat(_, _)
Flat(ts, T) == IF ts = <<>> THEN "" ELSE T[Head(ts)] \o Flat(Tail(ts), T)
TokSeqs(T, n) == UNION {[1..k -> 1..Len(T)] : k \in 0..n}

\* directive lines whose continuation behaviour is explored
DirLines == { ws \o pfx \o "TXTPP#" \o ty \o arg :
                ws \in {"", "  ", "\t", " ^"}, pfx \in {"-", "// ", "~", "/*\t", "-~ ", ""},
                ty \in {"run", "", "temp", "write", "include", "tag"}, arg \in {"", " a"} }
DirSeq == SetToSeq(DirLines)

VARIABLES phase, line, dix
vars == <<phase, line, dix>>

LineClass(ts) == IF ts = <<>> THEN 0 ELSE (ts[1] + 5 * ts[Len(ts)] + Len(ts)) % Parts
Init == \/ /\ phase = "detect" /\ line \in {ts \in TokSeqs(Tok, MaxTok) : LineClass(ts) = Part} /\ dix = 0
        \/ /\ phase = "cont" /\ line = <<>> /\ dix \in {i \in 1..Len(DirSeq) : i % Parts = Part}
Next == UNCHANGED vars
Spec == Init /\ [][Next]_vars

Cands == {Flat(c, CandTok) : c \in TokSeqs(CandTok, MaxCand)}
WithWs(d) == {d.ws \o c : c \in Cands} \cup Cands

DetectOK == phase = "detect" => DetectEquiv(Flat(line, Tok))
ContOK == phase = "cont" =>
             LET d == Detect(DirSeq[dix]) IN
             d.dir /\ \A s \in WithWs(d) : ContEquiv(d, s)

EmitDetect == (EmitTables /\ phase = "detect") =>
   PrintT(<<"DETECT", ToJson([line |-> Flat(line, Tok), res |-> Detect(Flat(line, Tok))])>>)
EmitCont == (EmitTables /\ phase = "cont") =>
   LET d == Detect(DirSeq[dix]) IN
   PrintT(<<"CONT", ToJson([dline |-> DirSeq[dix], d |-> d,
                             rows |-> SetToSeq({[c |-> s, r |-> AddLine(d, s), amb |-> Ambiguous(d, s)] : s \in WithWs(d)})])>>)
=============================================================================
