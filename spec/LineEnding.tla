----------------------------- MODULE LineEnding -----------------------------
(***************************************************************************)
(* Which line ending a generated file gets (C12): src/fs/line_ending.rs.   *)
(* "The output files ... will have consistent line ending with the input   *)
(*  .txtpp files ... the same line endings as the first line in the input  *)
(*  file. If the input file does not have a line ending, ... the same line *)
(*  ending as the operating system."  (README, Output Specification)       *)
(* Files are strings over a small alphabet that contains "\r" and "\n".    *)
(***************************************************************************)
EXTENDS Naturals, Sequences, FiniteSets, TLC, Json, TLCExt, SequencesExt

CONSTANTS MaxLen, EmitTable
OsLE == "\n"                       \* the checks run on Linux
Ch(s, i) == SubSeq(s, i, i)
FindNl(s) == LET c == {i \in 1..Len(s) : Ch(s, i) = "\n"} IN IF c = {} THEN 0 ELSE CHOOSE i \in c : \A j \in c : i <= j

\* operational, code-shaped: read_until(b'\n') into buf, then look at the last one or two bytes
Detect(s) ==
  LET n == FindNl(s)
      buf == IF n = 0 THEN s ELSE SubSeq(s, 1, n)
      len == Len(buf) IN
  IF len = 0 THEN OsLE
  ELSE IF len = 1 THEN (IF buf = "\n" THEN "\n" ELSE OsLE)
  ELSE IF Ch(buf, len) = "\n" THEN (IF Ch(buf, len - 1) = "\r" THEN "\r\n" ELSE "\n")
  ELSE OsLE

\* declarative: the terminator of the first line, the OS default when the first line has none
FirstLineTerminator(s) ==
  IF \E i \in 1..Len(s) : Ch(s, i) = "\n"
    THEN LET i == FindNl(s) IN IF i > 1 /\ Ch(s, i - 1) = "\r" THEN "\r\n" ELSE "\n"
    ELSE OsLE

Alphabet == {"a", "\r", "\n"}
RECURSIVE Strs(_)
Strs(n) == IF n = 0 THEN {""} ELSE Strs(n - 1) \cup {s \o a : s \in Strs(n - 1), a \in Alphabet}
VARIABLE f
Init == f \in Strs(MaxLen)
Next == UNCHANGED f
Spec == Init /\ [][Next]_f
Equiv == Detect(f) = FirstLineTerminator(f)
Emit == EmitTable => PrintT(<<"LE", ToJson([file |-> f, le |-> Detect(f)])>>)
=============================================================================
