------------------------------ MODULE TagTrace ------------------------------
(* Observations recorded from the real TagState (create / try_store / inject_tags / has_tags)  *)
(* on generated cases larger than the exhaustive bound, checked against TagInject.tla.         *)
(* A record is one call; "new" starts a fresh store.                                           *)
EXTENDS TagInject, Json, IOUtils, TLCExt
Rec == ndJsonDeserialize(IOEnv.TRACE)
VARIABLES l, st
Ev == Rec[l]
Is(op) == l <= Len(Rec) /\ Rec[l].op = op /\ l' = l + 1
TNew == Is("new") /\ st' = Empty
TCreate == Is("create") /\ Create(st, Ev.name).ok = Ev.ok /\ st' = Create(st, Ev.name).st
TStore == Is("store") /\ TryStore(st, Ev.text).ok = Ev.ok /\ st' = TryStore(st, Ev.text).st
TInject == /\ Is("inject")
           /\ PrefixFree(st) /\ Deterministic(st, Ev.line, Ev.le)
           /\ Inject(st, Ev.line, Ev.le).out = Ev.out
           /\ DeclInject(st, Ev.line, Ev.le) = Inject(st, Ev.line, Ev.le)
           /\ st' = Inject(st, Ev.line, Ev.le).st
THas == Is("has") /\ HasTags(st) = Ev.has /\ st' = st
TraceSpec == l = 1 /\ st = Empty /\ [][TNew \/ TCreate \/ TStore \/ TInject \/ THas]_<<l, st>>
TraceAccepted == LET d == TLCGet("stats").diameter IN
                 IF d - 1 = Len(Rec) THEN TRUE ELSE Print(<<"TRACE REJECTED at event", d, Rec[d]>>, FALSE)
=============================================================================
