------------------------------- MODULE PpObs -------------------------------
(* I->S: builds of generated sources (longer than the exhaustive bound) are run first; what was  *)
(* observed - verdict, output bytes, temp files, commands executed - must be what PpCore.tla     *)
(* prescribes.  One record per build.                                                            *)
EXTENDS PpEnv, Json, IOUtils, TLCExt
Rec == ndJsonDeserialize(IOEnv.TRACE)
VARIABLE l
Ev == Rec[l]
TempMap(r) == Overlay(<<>>, r.temps)
Step ==
  /\ l <= Len(Rec)
  /\ LET r == Build(Ev.src, Env(Ev.le, Ev.tr, Ev.tr, FALSE)) IN
     /\ (Ev.verdict = "ok") = (r.err = "")
     /\ Ev.verdict \in {"ok", "err"}
     /\ r.err = "" =>
          /\ Ev.out = r.out
          /\ Ev.runs = r.runs
          /\ Len(Ev.temps) = Cardinality(DOMAIN TempMap(r))
          /\ \A i \in 1..Len(Ev.temps) : Ev.temps[i][1] \in DOMAIN TempMap(r) /\ TempMap(r)[Ev.temps[i][1]] = Ev.temps[i][2]
  /\ l' = l + 1
TraceSpec == l = 1 /\ [][Step]_l
TraceAccepted == LET d == TLCGet("stats").diameter IN
                 IF d - 1 = Len(Rec) THEN TRUE ELSE Print(<<"TRACE REJECTED at event", d, Rec[d]>>, FALSE)
=============================================================================
