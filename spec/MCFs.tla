-------------------------------- MODULE MCFs --------------------------------
(* TLC driver for Fs.tla. Two uses:                                                              *)
(*  - SPECIFICATION Spec: all histories from the pristine tree, action properties + invariants.  *)
(*  - SPECIFICATION EdgeSpec: every (state, txtpp action) edge of the whole state space printed  *)
(*    once with the predicted post-state(s), verdict and touched set: the per-transition tests.  *)
EXTENDS Fs, Json, TLCExt
\* scenario AB: A includes B's output and writes a temp file
Src_AB == {"A", "B"}
Deps_AB == [s \in Src_AB |-> IF s = "A" THEN {"B"} ELSE {}]
Temp_AB == {"A"}
\* scenario ABC: chain A -> B -> C, temp files in A and C
Src_ABC == {"A", "B", "C"}
Deps_ABC == [s \in Src_ABC |-> IF s = "A" THEN {"B"} ELSE IF s = "B" THEN {"C"} ELSE {}]
Temp_ABC == {"A", "C"}
\* scenario ERR: like AB but A has a directive error after its temp directive
Fail_None == {}
Fail_A == {"A"}
\* scenario EMP: like AB, but B consists of a temp directive only (its output is the empty file)
Temp_B == {"B"}
\* scenario IND: two independent sources, both with temp files
Deps_IND == [s \in Src_AB |-> {}]
Temp_IND == {"A", "B"}

\* a failing run leaves its own paths in an unspecified state: one representative edge (nothing changed) is printed for it
EdgeNext == TxtppStep /\ ((obs'.verdict = "ok" \/ fs' = fs) =>
                            PrintT(<<"EDGE", ToJson([ver |-> ver, from |-> fs, to |-> fs', obs |-> obs'])>>))
EdgeSpec == InitAny /\ [][EdgeNext]_vars
EdgeSpecLite == InitLite /\ [][EdgeNext]_vars
=============================================================================
