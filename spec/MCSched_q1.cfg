SPECIFICATION Spec
CONSTANTS
  NF = 3
  N = 2
  MaxInputs = 2
  DirFiles <- NoDirFiles
  DirSubs <- NoDirSubs
  Modes <- BuildOnly
  FailKinds <- NoFail
  MaxFail = 0
  Panics = FALSE
INVARIANTS TypeOK ExitQuiescent Accounting AtMostOnce SuccessComplete CleanInert NoBadRead NoFalseSuccess FailDetected CycleVerdict NoSpuriousCirc NoSpuriousErr Bystanders DepMgrConsistent OnlyRequired
PROPERTIES Terminates
CHECK_DEADLOCK FALSE
