------------------------------ MODULE Resolve ------------------------------
(***************************************************************************)
(* Which sources a run processes and how outputs are named (C11).          *)
(*   src/fs/path/mod.rs   is_txtpp_file, get_txtpp_file, remove_txtpp      *)
(*   src/core/execute/resolve_inputs.rs, scan_dir.rs                       *)
(* The project tree is given by the constants: directories are path        *)
(* strings relative to the base directory ("" is the base directory).      *)
(***************************************************************************)
EXTENDS Naturals, Sequences, FiniteSets, TLC

CONSTANTS DirFilesR,   \* DirFilesR[d]: names of the regular files directly inside directory d
          DirSubsR,    \* DirSubsR[d]: names of the sub-directories of d
          DepsOf       \* DepsOf[p]: source paths whose outputs source p includes (p, deps: paths relative to the base)

Ch(s, i) == SubSeq(s, i, i)
Drop(s, n) == SubSeq(s, n + 1, Len(s))
FindC(s, c) == LET x == {i \in 1..Len(s) : Ch(s, i) = c} IN IF x = {} THEN 0 ELSE CHOOSE i \in x : \A j \in x : i <= j
RECURSIVE SplitOn(_, _)
SplitOn(s, c) == LET i == FindC(s, c) IN IF i = 0 THEN <<s>> ELSE <<SubSeq(s, 1, i - 1)>> \o SplitOn(Drop(s, i), c)
RECURSIVE JoinWith(_, _)
JoinWith(ss, sep) == IF ss = <<>> THEN "" ELSE IF Len(ss) = 1 THEN ss[1] ELSE ss[1] \o sep \o JoinWith(Tail(ss), sep)

\* ---- file names: Rust's Path::extension / set_extension on the last component
\* a name that starts with a dot and has no other dot has no extension
Comps(n) == SplitOn(n, ".")
HasExt(n) == LET c == Comps(n) IN Len(c) >= 2 /\ ~(Len(c) = 2 /\ c[1] = "")
Ext(n) == Comps(n)[Len(Comps(n))]
DropExt(n) == JoinWith(SubSeq(Comps(n), 1, Len(Comps(n)) - 1), ".")

\* declarative (README "foo.ext.txtpp, foo.txtpp.ext or foo.txtpp")
IsTxtpp(n) == HasExt(n) /\ (Ext(n) = "txtpp" \/ (HasExt(DropExt(n)) /\ Ext(DropExt(n)) = "txtpp"))
\* the output is the name with the txtpp component removed: foo.ext / foo.ext / foo
OutputName(n) == IF Ext(n) = "txtpp" THEN DropExt(n) ELSE DropExt(DropExt(n)) \o "." \o Ext(n)
\* the source of a requested output name: .ext.txtpp first, then .txtpp.ext; without extension .txtpp
SourceCands(n) == IF HasExt(n) THEN <<n \o ".txtpp", DropExt(n) \o ".txtpp." \o Ext(n)>> ELSE <<n \o ".txtpp">>

\* ---- paths
Dirs == DOMAIN DirFilesR
PJoin(d, n) == IF d = "" THEN n ELSE d \o "/" \o n
RECURSIVE Canon(_, _)
Canon(parts, acc) ==   \* lexical normalisation: the domain has no symbolic links (D12)
  IF parts = <<>> THEN acc
  ELSE LET h == Head(parts) IN
       IF h = "" \/ h = "." THEN Canon(Tail(parts), acc)
       ELSE IF h = ".." THEN Canon(Tail(parts), IF acc = <<>> THEN acc ELSE SubSeq(acc, 1, Len(acc) - 1))
       ELSE Canon(Tail(parts), Append(acc, h))
CanonPath(e) == Canon(SplitOn(e, "/"), <<>>)

\* resolve_inputs: one input expression (relative to the base directory)
ResolveInput(e) ==
  LET c == CanonPath(e)  full == JoinWith(c, "/") IN
  IF full \in Dirs THEN [k |-> "dir", p |-> full]
  ELSE IF c = <<>> THEN [k |-> "dir", p |-> ""]
  ELSE LET d == JoinWith(SubSeq(c, 1, Len(c) - 1), "/")  n == c[Len(c)] IN
       IF d \notin Dirs THEN [k |-> "err", p |-> full]
       ELSE IF IsTxtpp(n) THEN (IF n \in DirFilesR[d] THEN [k |-> "file", p |-> PJoin(d, n)] ELSE [k |-> "err", p |-> full])
       ELSE LET cs == SourceCands(n)
                hit == {i \in 1..Len(cs) : cs[i] \in DirFilesR[d]} IN
            IF hit = {} THEN [k |-> "err", p |-> full]
            ELSE [k |-> "file", p |-> PJoin(d, cs[CHOOSE i \in hit : \A j \in hit : i <= j])]

\* scan_dir
RECURSIVE Scan(_, _, _)
Scan(d, recursive, fuel) ==
  {PJoin(d, n) : n \in {n \in DirFilesR[d] : IsTxtpp(n)}}
  \cup (IF recursive /\ fuel > 0 THEN UNION {Scan(PJoin(d, s), recursive, fuel - 1) : s \in DirSubsR[d]} ELSE {})

RECURSIVE DepClosure(_, _)
DepClosure(S, fuel) == IF fuel = 0 THEN S ELSE DepClosure(S \cup UNION {DepsOf[p] : p \in S}, fuel - 1)

\* the run as a whole
Run(inputs, recursive, mode) ==
  LET rs == [i \in 1..Len(inputs) |-> ResolveInput(inputs[i])]
      bad == \E i \in 1..Len(rs) : rs[i].k = "err" IN
  IF bad THEN [verdict |-> "err", processed |-> {}]
  ELSE LET named == {rs[i].p : i \in {j \in 1..Len(rs) : rs[j].k = "file"}}
           scanned == UNION {Scan(rs[i].p, recursive, 8) : i \in {j \in 1..Len(rs) : rs[j].k = "dir"}}
           req == named \cup scanned
       IN [verdict |-> "ok", processed |-> IF mode = "clean" THEN req ELSE DepClosure(req, 8)]

OutputPath(p) == LET c == SplitOn(p, "/") IN
                 PJoin(JoinWith(SubSeq(c, 1, Len(c) - 1), "/"), OutputName(c[Len(c)]))
=============================================================================
