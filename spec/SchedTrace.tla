----------------------------- MODULE SchedTrace -----------------------------
(***************************************************************************)
(* Trace validation: a sequence of hook events recorded from the real      *)
(* coordinator (feature verif; ctl.rs) must be a behaviour of Sched.tla.   *)
(* Many runs are concatenated; an "init" event carries the scenario of the *)
(* run that follows.  What the hooks do not log (the order in which the    *)
(* code spawns dependencies / released dependers / directory entries) is   *)
(* left to TLC and pinned down by the following spawn events.              *)
(***************************************************************************)
EXTENDS MCSched, Json, IOUtils, TLCExt

Rec == ndJsonDeserialize(IOEnv.TRACE)
VARIABLE l
Ev == Rec[l]
IsEvent(e) == l <= Len(Rec) /\ Rec[l].event = e /\ l' = l + 1
SumOver(f, S) == LET RECURSIVE S2(_) S2(T) == IF T = {} THEN 0 ELSE LET x == CHOOSE x \in T : TRUE IN f[x] + S2(T \ {x}) IN S2(S)

TraceInit ==
  /\ l = 1
  /\ deps = [f \in Files |-> {}] /\ failAt = [f \in Files |-> "none"] /\ inputs = <<>>
  /\ recursive = FALSE /\ mode = "build"
  /\ pc = "returned" /\ todo = <<>> /\ seen = {} /\ total = 0 /\ done = 0
  /\ queue = <<>> /\ working = {} /\ running = {} /\ chan = <<>>
  /\ outCnt = [f \in Files |-> 0] /\ inEdges = [f \in Files |-> {}] /\ finished = {}
  /\ verdict = "none" /\ disk = [f \in Files |-> "old"] /\ finals = [f \in Files |-> 0]
  /\ cmdRuns = [f \in Files |-> 0] /\ badRead = {}

FilesOf(inp) == SelectSeq(inp, LAMBDA x : x[1] = "file")
DirsOf(inp)  == SelectSeq(inp, LAMBDA x : x[1] = "dir")

Reset ==
  /\ IsEvent("init")
  /\ Ev.nf = NF /\ Ev.n = N
  /\ deps' = [f \in Files |-> ToSet(Ev.deps[f])]
  /\ failAt' = [f \in Files |-> Ev.fail[f]]
  /\ inputs' = [i \in 1..Len(Ev.inputs) |-> <<Ev.inputs[i][1], Ev.inputs[i][2]>>]
  /\ recursive' = Ev.recursive /\ mode' = Ev.mode
  /\ pc' = "spawn"
  /\ todo' = [i \in 1..Len(FilesOf(Ev.inputs)) |-> <<"file", FilesOf(Ev.inputs)[i][2], TRUE>>]
             \o [i \in 1..Len(DirsOf(Ev.inputs)) |-> <<"dir", DirsOf(Ev.inputs)[i][2], TRUE>>]
  /\ seen' = {} /\ done' = 0 /\ total' = Len(DirsOf(Ev.inputs))
  /\ queue' = <<>> /\ working' = {} /\ running' = {} /\ chan' = <<>>
  /\ outCnt' = [f \in Files |-> 0] /\ inEdges' = [f \in Files |-> {}] /\ finished' = {}
  /\ verdict' = "none" /\ disk' = [f \in Files |-> "old"] /\ finals' = [f \in Files |-> 0]
  /\ cmdRuns' = [f \in Files |-> 0] /\ badRead' = {}

EvTask == Task(Ev.k, Ev.id, Ev.first)

TSpawn == /\ IsEvent("spawn") /\ todo # <<>> /\ Head(todo) = <<Ev.k, Ev.id, Ev.first>>
          /\ CoordSpawn /\ total' = Ev.total /\ Len(queue') = Len(queue) + 1
TDedup == /\ IsEvent("dedup") /\ todo # <<>> /\ Head(todo)[1] = "file" /\ Head(todo)[2] = Ev.id /\ Head(todo)[3]
          /\ CoordSpawn /\ queue' = queue
TBegin == IsEvent("begin") /\ Begin(EvTask)
TWork  == IsEvent("work") /\ Work(EvTask) /\ ResultOf(EvTask).k = Ev.r
TSent  == IsEvent("sent") /\ End(EvTask) /\ ResultOf(EvTask).k = Ev.r
TPoll  == /\ IsEvent("poll") /\ pc = "loop" /\ todo = <<>>
          /\ done = Ev.done /\ total = Ev.total
          /\ SumOver([f \in Files |-> Cardinality(inEdges[f])], Files) = Ev.edges
          /\ SumOver(outCnt, Files) = Ev.counts
          /\ Cardinality(finished) = Ev.fin
          /\ UNCHANGED vars
TRecv  == /\ IsEvent("recv") /\ chan # <<>> /\ Head(chan).k = Ev.r
          /\ (Ev.k = "file" => Head(chan).id = Ev.id)
          /\ CoordRecv /\ done' = Ev.done /\ total = Ev.total
TFinish == /\ IsEvent("finish")
           /\ \/ verdict = "none" /\ CoordExit /\ ((verdict' = "ok") = Ev.ok)
              \/ verdict = "err" /\ ~Ev.ok /\ UNCHANGED vars

TraceNext == Reset \/ TSpawn \/ TDedup \/ TBegin \/ TWork \/ TSent \/ TPoll \/ TRecv \/ TFinish
TraceSpec == TraceInit /\ [][TraceNext]_<<vars, l>>

TraceAccepted ==
  LET d == TLCGet("stats").diameter IN
  IF d - 1 = Len(Rec) THEN TRUE
  ELSE Print(<<"TRACE REJECTED at event", d, Rec[d]>>, FALSE)
=============================================================================
