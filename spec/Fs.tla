--------------------------------- MODULE Fs ---------------------------------
(***************************************************************************)
(* The project tree across runs (C06 C07 C08 C09 C10): what each mode of   *)
(* txtpp does to the generated paths (output files and temp targets) of a  *)
(* small project, starting from any state previous or interrupted runs,    *)
(* edits and tampering may have left behind.                               *)
(*  src/fs/io_context.rs  CtxOut::new / write_output / done / write_temp   *)
(*  src/core/execute/config.rs  Mode (documented semantics of each mode)   *)
(*                                                                         *)
(* A generated path is abstractly                                          *)
(*    "absent"                                                             *)
(*    <<"built", vers, tr>>   the bytes a build of source versions vers    *)
(*                            with trailing-newline option tr writes       *)
(*    "garbage"               anything else (stale text, truncation, ...)  *)
(* Whether "garbage" is an empty file, a prefix cut inside a multi-byte    *)
(* character or random bytes is chosen when the state is materialised: the *)
(* claim of C08 is exactly that it makes no difference.                    *)
(***************************************************************************)
EXTENDS Naturals, FiniteSets, Sequences, TLC

CONSTANTS Sources,    \* the .txtpp sources of the project
          Deps,       \* Deps[s]: sources whose output s includes
          HasTemp,    \* sources with a temp directive (placed before any include)
          Failing     \* sources with a directive error after their temp directive (build/verify fail)

\* generated paths are strings "out:<source>" / "tmp:<source>" (sources are strings)
Out(s) == "out:" \o s
Tmp(s) == "tmp:" \o s
Kind(g) == SubSeq(g, 1, 3)
Outputs == {Out(s) : s \in Sources}
Temps == {Tmp(s) : s \in HasTemp}
Gen == Outputs \cup Temps
Src(g) == SubSeq(g, 5, Len(g))
Modes == {"build", "needed", "verify", "clean"}

\* statuses are tuples so that TLC can compare them with each other
Absent == <<"absent">>
Garbage == <<"garbage">>

VARIABLES ver,   \* ver[s] \in {0, 1}: current content version of source s
          fs,    \* fs[g]: abstract status of generated path g
          obs    \* what the last txtpp run reported / touched (hidden from the state graph by VIEW)

RECURSIVE Reach(_, _)
Reach(S, n) == IF n = 0 THEN S ELSE Reach(S \cup UNION {Deps[s] : s \in S}, n - 1)
Closure(S) == Reach(S, Cardinality(Sources))
\* the versions the content of g depends on: those of its source and of everything it includes
Relevant(g) == IF Kind(g) = "out" THEN Closure({Src(g)}) ELSE {Src(g)}
VersOf(g) == [s \in Relevant(g) |-> ver[s]]
\* temp content does not depend on the option
Built(g, tr) == <<"built", VersOf(g), IF Kind(g) = "out" THEN tr ELSE TRUE>>
IsFresh(g, tr) == fs[g] = Built(g, tr)
AnyFailing(S) == \E s \in S : s \in Failing

\* the functions f on S with f[g] \in C[g]
RECURSIVE Pick(_, _)
Pick(S, C) == IF S = {} THEN {[x \in {} |-> Absent]}
              ELSE LET g == CHOOSE g \in S : TRUE IN
                   {[x \in S |-> IF x = g THEN v ELSE f[x]] : v \in C[g], f \in Pick(S \ {g}, C)}

NoObs == [act |-> "none"]
Statuses(g) == {Absent, Garbage} \cup
               {<<"built", v, t>> : v \in [Relevant(g) -> {0, 1}], t \in (IF Kind(g) = "out" THEN BOOLEAN ELSE {TRUE})}

Init == /\ ver = [s \in Sources |-> 0]
        /\ fs = [g \in Gen |-> Absent]
        /\ obs = NoObs

\* a lighter family of states for the larger scenarios: every path absent, garbage, what a build would write now (either
\* option), or what it wrote before every source was edited; sources at version 0
StatusesLite(g) == {Absent, Garbage} \cup {<<"built", [s \in Relevant(g) |-> v], t>> : v \in {0, 1}, t \in (IF Kind(g) = "out" THEN BOOLEAN ELSE {TRUE})}
InitLite == /\ ver = [s \in Sources |-> 0]
            /\ fs \in Pick(Gen, [g \in Gen |-> StatusesLite(g)])
            /\ obs = NoObs

\* every state, for the per-transition tests
InitAny == /\ ver \in [Sources -> {0, 1}]
           /\ fs \in Pick(Gen, [g \in Gen |-> Statuses(g)])
           /\ obs = NoObs

-----------------------------------------------------------------------------
\* build / needed-build of the named sources (inputs: a non-empty set of sources)
\* processed = the named sources and their transitive .txtpp dependencies
DoBuild(inputs, tr, needed) ==
  LET P == Closure(inputs)
      mode == IF needed THEN "needed" ELSE "build" IN
  IF ~AnyFailing(P)
    THEN \* success: every output of the closure and every temp of it is fresh afterwards
         /\ fs' = [g \in Gen |-> IF Src(g) \in P THEN Built(g, tr) ELSE fs[g]]
         /\ obs' = [act |-> mode, inputs |-> inputs, tr |-> tr, verdict |-> "ok",
                    \* build rewrites every output; needed only those that are not up to date;
                    \* no mode rewrites a temp file whose content is already correct
                    touched |-> {g \in Gen : Src(g) \in P /\
                                    IF Kind(g) = "out" /\ ~needed THEN TRUE ELSE ~IsFresh(g, tr)}]
    ELSE \* failure: only the verdict is claimed; own paths may have been written or not
         /\ fs' \in Pick(Gen, [g \in Gen |-> IF Src(g) \in P THEN {fs[g], Built(g, tr), Garbage} ELSE {fs[g]}])
         /\ obs' = [act |-> mode, inputs |-> inputs, tr |-> tr, verdict |-> "err",
                    touched |-> {g \in Gen : Src(g) \in P}]        \* upper bound

Build(inputs, tr) == DoBuild(inputs, tr, FALSE) /\ UNCHANGED ver
NeededBuild(inputs, tr) == DoBuild(inputs, tr, TRUE) /\ UNCHANGED ver

\* verify: succeeds iff every output of the closure is what a build would write now; never touches
\* an output; temp files are rebuilt as in a build (documented in Mode::Verify)
Verify(inputs, tr) ==
  LET P == Closure(inputs)
      good == ~AnyFailing(P) /\ \A s \in P : IsFresh(Out(s), tr) IN
  /\ UNCHANGED ver
  /\ IF good
       THEN /\ fs' = [g \in Gen |-> IF g \in Temps /\ Src(g) \in P THEN Built(g, tr) ELSE fs[g]]
            /\ obs' = [act |-> "verify", inputs |-> inputs, tr |-> tr, verdict |-> "ok",
                       touched |-> {g \in Temps : Src(g) \in P /\ ~IsFresh(g, tr)}]
       ELSE \* which temp files were rebuilt before the mismatch was met is not claimed
            /\ fs' \in Pick(Gen, [g \in Gen |-> IF g \in Temps /\ Src(g) \in P THEN {fs[g], Built(g, tr)} ELSE {fs[g]}])
            /\ obs' = [act |-> "verify", inputs |-> inputs, tr |-> tr, verdict |-> "err",
                       touched |-> {g \in Temps : Src(g) \in P}]   \* upper bound

\* clean: the output and the temp targets of the NAMED sources (dependencies that are not inputs
\* are not cleaned: Mode::Clean); nothing is created; succeeds even with directive errors
Clean(inputs) ==
  /\ UNCHANGED ver
  /\ fs' = [g \in Gen |-> IF Src(g) \in inputs THEN Absent ELSE fs[g]]
  /\ obs' = [act |-> "clean", inputs |-> inputs, tr |-> TRUE, verdict |-> "ok",
             touched |-> {g \in Gen : Src(g) \in inputs /\ fs[g] # Absent}]

\* the environment
EditSource(s) == /\ ver' = [ver EXCEPT ![s] = 1 - @] /\ UNCHANGED fs /\ obs' = NoObs
Tamper(g) == /\ fs' = [fs EXCEPT ![g] = Garbage] /\ UNCHANGED ver /\ obs' = NoObs
Delete(g) == /\ fs[g] # Absent /\ fs' = [fs EXCEPT ![g] = Absent] /\ UNCHANGED ver /\ obs' = NoObs
\* a build killed at an arbitrary point: each own path is left as it was, missing, cut, or done
CrashedBuild(inputs, tr) ==
  /\ UNCHANGED ver
  /\ fs' \in Pick(Gen, [g \in Gen |-> IF Src(g) \in Closure(inputs) THEN {fs[g], Absent, Garbage, Built(g, tr)} ELSE {fs[g]}])
  /\ obs' = NoObs

InputSets == SUBSET Sources \ {{}}
TxtppStep == \E i \in InputSets : \/ \E tr \in BOOLEAN : Build(i, tr) \/ NeededBuild(i, tr) \/ Verify(i, tr)
                                 \/ Clean(i)
EnvStep == \/ \E s \in Sources : EditSource(s)
           \/ \E g \in Gen : Tamper(g) \/ Delete(g)
           \/ \E i \in InputSets, tr \in BOOLEAN : CrashedBuild(i, tr)
Next == TxtppStep \/ EnvStep
vars == <<ver, fs, obs>>
Spec == Init /\ [][Next]_vars
SpecAny == InitAny /\ [][TxtppStep]_vars
View == <<ver, fs>>

-----------------------------------------------------------------------------
\* The property statements over the actions (checked by TLC as action properties).
IsRun(m) == obs'.act = m
\* C08: the result of a successful build depends on the sources and options only
BuildHermetic == [][\A i \in InputSets, tr \in BOOLEAN :
                      (Build(i, tr) /\ obs'.verdict = "ok") =>
                        \A g \in Gen : Src(g) \in Closure(i) => fs'[g] = <<"built", [s \in Relevant(g) |-> ver[s]], IF Kind(g) = "out" THEN tr ELSE TRUE>>]_vars
\* C08: the verdict of a build does not depend on the generated paths
BuildVerdict == [][\A i \in InputSets, tr \in BOOLEAN :
                      Build(i, tr) => (obs'.verdict = "ok") = ~AnyFailing(Closure(i))]_vars
\* C09: needed-build ends in the same tree as build, with the same verdict
NeededEquivBuild == [][\A i \in InputSets, tr \in BOOLEAN :
                      (NeededBuild(i, tr) /\ obs'.verdict = "ok") =>
                         \A g \in Gen : Src(g) \in Closure(i) => fs'[g] = Built(g, tr)']_vars
\* C09: nothing that is already correct is rewritten by needed-build; no mode rewrites a correct temp file
NoRewriteWhenFresh == [][(obs'.act \in {"needed", "build", "verify"} /\ obs'.verdict = "ok") =>
                           \A g \in obs'.touched : (g \in Temps \/ obs'.act = "needed") => ~IsFresh(g, obs'.tr)]_vars
\* C06: verify passes exactly when every output of the closure is up to date; outputs never change
VerifyExact == [][obs'.act = "verify" =>
                    /\ (obs'.verdict = "ok") = (~AnyFailing(Closure(obs'.inputs)) /\ \A s \in Closure(obs'.inputs) : IsFresh(Out(s), obs'.tr))
                    /\ \A g \in Outputs : fs'[g] = fs[g] /\ g \notin obs'.touched]_vars
\* C07: clean removes what it is told to and creates nothing
CleanRemoves == [][obs'.act = "clean" =>
                    /\ obs'.verdict = "ok"
                    /\ \A g \in Gen : (Src(g) \in obs'.inputs => fs'[g] = Absent) /\ (fs[g] = Absent => fs'[g] = Absent)]_vars
\* C10: only the own generated paths of the processed sources are ever touched
OnlyOwnPaths == [][obs'.act # "none" =>
                    \A g \in Gen : (fs'[g] # fs[g] \/ g \in obs'.touched) =>
                        Src(g) \in (IF obs'.act = "clean" THEN obs'.inputs ELSE Closure(obs'.inputs))]_vars
\* Two-step statements, as state invariants over the (deterministic) results of successful runs
BuildPost(f, i, tr) == [g \in Gen |-> IF Src(g) \in Closure(i) THEN Built(g, tr) ELSE f[g]]
CleanPost(f, i) == [g \in Gen |-> IF Src(g) \in i THEN Absent ELSE f[g]]
Pristine == \A g \in Gen : fs[g] = Absent
\* C08: building twice equals building once; the result does not depend on the state before
BuildIdempotent == \A i \in InputSets, tr \in BOOLEAN :
                     ~AnyFailing(Closure(i)) => BuildPost(BuildPost(fs, i, tr), i, tr) = BuildPost(fs, i, tr)
BuildForgets == \A i \in InputSets, tr \in BOOLEAN :
                     \A g \in Gen : Src(g) \in Closure(i) => BuildPost(fs, i, tr)[g] = BuildPost([h \in Gen |-> Absent], i, tr)[g]
\* C07: a tree without generated files is restored exactly by build-then-clean of a dependency-closed selection (D14)
CleanRestores == Pristine => \A i \in InputSets, tr \in BOOLEAN :
                     (Closure(i) = i) => CleanPost(BuildPost(fs, i, tr), i) = fs
\* C09: a needed-build after a build touches nothing (everything is fresh)
NeededAfterBuildIdle == \A i \in InputSets, tr \in BOOLEAN :
                     LET f == BuildPost(fs, i, tr) IN \A g \in Gen : Src(g) \in Closure(i) => f[g] = Built(g, tr)
=============================================================================
