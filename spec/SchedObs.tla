------------------------------ MODULE SchedObs ------------------------------
(***************************************************************************)
(* Observational specification of "a coordinator with a pool of workers":  *)
(* only what ANY implementation of the run must obey for C02-C05 to hold,  *)
(* stated over the hook events alone, with no model of how the coordinator *)
(* decides.  It never rejects a well-formed trace; it records the broken   *)
(* rules in `bad`, and one invariant per property says that no rule of     *)
(* that property was broken.                                               *)
(*                                                                         *)
(* Use: a trace that Sched.tla (the implementation-shaped model) does not  *)
(* accept is checked again here.  A broken rule is a violation of the      *)
(* property it belongs to.  If no rule is broken the code merely stopped   *)
(* following the shape of Sched.tla (MODEL-DRIFT): no property is violated *)
(* on that run and no alarm is raised.                                     *)
(***************************************************************************)
EXTENDS Naturals, Sequences, FiniteSets, TLC, Json, IOUtils, TLCExt

Rec == ndJsonDeserialize(IOEnv.TRACE)

VARIABLES l,        \* next event
          sc,       \* scenario of the current run: [nf, deps, fail, inputs, recursive, mode]
          queued,   \* bag of spawned, not yet begun tasks (sequence)
          begun,    \* begun, body not finished
          ended,    \* body finished, not yet sent: <<task, result>>
          chan,     \* sent, not yet received: results in order
          firsts,   \* files whose first pass was spawned
          okEnds,   \* okEnds[f]: passes of f that ended Ok
          recvOk,   \* files whose Ok result the coordinator has received
          fin,      \* "none" | "ok" | "err": what the run reported
          bad       \* broken rules: <<property, rule>>
vars == <<l, sc, queued, begun, ended, chan, firsts, okEnds, recvOk, fin, bad>>

Ev == Rec[l]
Is(e) == l <= Len(Rec) /\ Rec[l].event = e /\ l' = l + 1
ToSetS(s) == {s[i] : i \in 1..Len(s)}
Task(k, x, first) == [kind |-> k, id |-> x, first |-> first]
EvTask == Task(Ev.k, Ev.id, Ev.first)
RemoveOne(s, t) == IF \E i \in 1..Len(s) : s[i] = t
                   THEN LET i == CHOOSE j \in 1..Len(s) : s[j] = t IN SubSeq(s, 1, i - 1) \o SubSeq(s, i + 1, Len(s))
                   ELSE s
Has(s, t) == \E i \in 1..Len(s) : s[i] = t
Flag(cond, p, r) == IF cond THEN {} ELSE {<<p, r>>}

\* ---- the scenario, declaratively
Files == 1..sc.nf
EffDeps(f) == IF sc.mode = "clean" THEN {} ELSE ToSetS(sc.deps[f])
EffFail(f) == IF sc.mode = "clean" THEN "none" ELSE sc.fail[f]
DirFiles(d) == IF d = sc.nf + 1 THEN {f \in Files : f <= 2} ELSE {f \in Files : f >= 3}
RECURSIVE ReachVia(_, _)
ReachVia(S, n) == IF n = 0 THEN S ELSE ReachVia(S \cup UNION {EffDeps(f) : f \in S}, n - 1)
Requested == UNION {IF sc.inputs[i][1] = "file" THEN {sc.inputs[i][2]}
                    ELSE DirFiles(sc.inputs[i][2]) \cup (IF sc.recursive /\ sc.inputs[i][2] = sc.nf + 1 THEN DirFiles(sc.nf + 2) ELSE {})
                    : i \in 1..Len(sc.inputs)}
Required == ReachVia(Requested, sc.nf)
OnCycle(f) == f \in ReachVia(EffDeps(f), sc.nf)
ReachesCycle(f) == \E g \in ReachVia({f}, sc.nf) : OnCycle(g)
Cyclic == \E f \in Required : ReachesCycle(f)
AnyFail == \E f \in Required : EffFail(f) # "none"
InFlight(f) == \/ \E t \in begun : t.kind = "file" /\ t.id = f
               \/ \E p \in ended : p[1].kind = "file" /\ p[1].id = f

Init == /\ l = 1 /\ sc = [nf |-> 0, deps |-> <<>>, fail |-> <<>>, inputs |-> <<>>, recursive |-> FALSE, mode |-> "build"]
        /\ queued = <<>> /\ begun = {} /\ ended = {} /\ chan = <<>> /\ firsts = {} /\ okEnds = <<>> /\ recvOk = {}
        /\ fin = "none" /\ bad = {}

OInit == /\ Is("init")
         /\ sc' = [nf |-> Ev.nf, deps |-> Ev.deps, fail |-> Ev.fail, inputs |-> Ev.inputs, recursive |-> Ev.recursive, mode |-> Ev.mode]
         /\ queued' = <<>> /\ begun' = {} /\ ended' = {} /\ chan' = <<>> /\ firsts' = {} /\ recvOk' = {}
         /\ okEnds' = [f \in 1..Ev.nf |-> 0] /\ fin' = "none" /\ UNCHANGED bad

OSpawn == /\ Is("spawn")
          /\ queued' = Append(queued, EvTask)
          /\ firsts' = IF Ev.k = "file" /\ Ev.first THEN firsts \cup {Ev.id} ELSE firsts
          /\ bad' = bad
               \* C03: a file's first pass is started once, however often the file is named / found / required
               \cup Flag(~(Ev.k = "file" /\ Ev.first /\ Ev.id \in firsts), "C03", "first pass spawned twice")
               \* C02: the pass that reads the dependencies' outputs starts only after every dependency reported Ok
               \cup Flag(~(Ev.k = "file" /\ ~Ev.first) \/ (EffDeps(Ev.id) \subseteq recvOk), "C02", "final pass spawned before its dependencies completed")
               \* C11 at the schedule level: only required files are ever processed
               \cup Flag(Ev.k # "file" \/ Ev.id \in Required, "C03", "a file that is not required was spawned")
          /\ UNCHANGED <<sc, begun, ended, chan, okEnds, recvOk, fin>>
ODedup == Is("dedup") /\ UNCHANGED <<sc, queued, begun, ended, chan, firsts, okEnds, recvOk, fin, bad>>
OBegin == /\ Is("begin")
          /\ queued' = RemoveOne(queued, EvTask) /\ begun' = begun \cup {EvTask}
          /\ bad' = bad
               \cup Flag(Has(queued, EvTask), "C03", "a task began that was never spawned")
               \* C02: no pass of a file starts while a pass that reads its output is running
               \cup Flag(~(Ev.k = "file") \/ ~\E t \in begun : t.kind = "file" /\ ~t.first /\ Ev.id \in EffDeps(t.id) /\ t.id # Ev.id,
                         "C02", "a dependency is rebuilt while its reader is running")
               \* C02: a reading pass starts only when none of its dependencies is in flight
               \cup Flag(~(Ev.k = "file" /\ ~Ev.first) \/ ~\E d \in EffDeps(Ev.id) : d # Ev.id /\ InFlight(d),
                         "C02", "a reader started while a dependency was in flight")
          /\ UNCHANGED <<sc, ended, chan, firsts, okEnds, recvOk, fin>>
OWork == /\ Is("work")
         /\ begun' = begun \ {EvTask} /\ ended' = ended \cup {<<EvTask, Ev.r>>}
         /\ okEnds' = IF Ev.k = "file" /\ Ev.r = "ok" THEN [okEnds EXCEPT ![Ev.id] = @ + 1] ELSE okEnds
         /\ bad' = bad
              \cup Flag(EvTask \in begun, "C03", "a task ended that never began")
              \* C03: no file is completed twice
              \cup Flag(~(Ev.k = "file" /\ Ev.r = "ok") \/ okEnds[Ev.id] = 0, "C03", "a file was completed twice")
              \* C04: a pass over a failing file does not report Ok
              \cup Flag(~(Ev.k = "file" /\ Ev.r = "ok") \/ EffFail(Ev.id) = "none", "C04", "a failing file reported Ok")
         /\ UNCHANGED <<sc, queued, chan, firsts, recvOk, fin>>
OSent == /\ Is("sent")
         /\ ended' = ended \ {<<EvTask, Ev.r>>} /\ chan' = Append(chan, [k |-> Ev.k, id |-> Ev.id, r |-> Ev.r])
         /\ bad' = bad \cup Flag(<<EvTask, Ev.r>> \in ended, "C03", "a result was sent twice or never produced")
         /\ UNCHANGED <<sc, queued, begun, firsts, okEnds, recvOk, fin>>
OPoll == Is("poll") /\ UNCHANGED <<sc, queued, begun, ended, chan, firsts, okEnds, recvOk, fin, bad>>
ORecv == /\ Is("recv")
         /\ chan' = IF chan = <<>> THEN chan ELSE Tail(chan)
         /\ recvOk' = IF Ev.k = "file" /\ Ev.r = "ok" THEN recvOk \cup {Ev.id} ELSE recvOk
         /\ bad' = bad
              \cup Flag(chan # <<>> /\ Head(chan).r = Ev.r /\ (Ev.k # "file" \/ Head(chan).id = Ev.id), "C03", "a result was received that is not the oldest one sent")
              \cup Flag(fin = "none", "C03", "a result was handled after the run reported its verdict")
         /\ UNCHANGED <<sc, queued, begun, ended, firsts, okEnds, fin>>
OFinish == /\ Is("finish")
           /\ fin' = IF Ev.ok THEN "ok" ELSE "err"
           /\ bad' = bad
                \* C03: success is reported only when nothing is outstanding and every required file was completed exactly once
                \cup Flag(~Ev.ok \/ (queued = <<>> /\ begun = {} /\ ended = {} /\ chan = <<>>), "C03", "success reported with work outstanding")
                \cup Flag(~Ev.ok \/ \A f \in Required : okEnds[f] = 1, "C03", "success reported although a required file was not completed")
                \* C04: no false success
                \cup Flag(~Ev.ok \/ ~AnyFail, "C04", "success reported although a required file fails")
                \* C05: cycles are reported; acyclic fault-free projects never fail; bystanders are complete
                \cup Flag(~Ev.ok \/ ~Cyclic, "C05", "success reported although a required file reaches a cycle")
                \cup Flag(Ev.ok \/ AnyFail \/ Cyclic, "C05", "failure reported for an acyclic project without faults")
                \cup Flag(Ev.ok \/ AnyFail \/ (\A f \in Required : ReachesCycle(f) \/ okEnds[f] = 1), "C05", "a bystander of a cycle was not completed")
           /\ UNCHANGED <<sc, queued, begun, ended, chan, firsts, okEnds, recvOk>>
\* hang / panic markers written by the controller
OHang == Is("hang") /\ bad' = bad \cup {<<"C03", "the run does not terminate">>}
         /\ UNCHANGED <<sc, queued, begun, ended, chan, firsts, okEnds, recvOk, fin>>
OPanic == Is("panic") /\ bad' = bad \cup {<<"C18", "a thread panicked">>}
          /\ UNCHANGED <<sc, queued, begun, ended, chan, firsts, okEnds, recvOk, fin>>

Next == OInit \/ OSpawn \/ ODedup \/ OBegin \/ OWork \/ OSent \/ OPoll \/ ORecv \/ OFinish \/ OHang \/ OPanic
ObsSpec == Init /\ [][Next]_vars

NoC02 == \A b \in bad : b[1] # "C02"
NoC03 == \A b \in bad : b[1] # "C03"
NoC04 == \A b \in bad : b[1] # "C04"
NoC05 == \A b \in bad : b[1] # "C05"
NoC18 == \A b \in bad : b[1] # "C18"
ObsAccepted == LET d == TLCGet("stats").diameter IN
               IF d - 1 = Len(Rec) THEN TRUE ELSE Print(<<"OBS TRACE MALFORMED at event", d, Rec[d]>>, FALSE)
=============================================================================
