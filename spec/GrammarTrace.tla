---------------------------- MODULE GrammarTrace ----------------------------
(* Observations recorded from the real Directive::detect_from / add_line on generated lines  *)
(* (longer than the exhaustive bound) are checked against Grammar.tla, one record per step.   *)
EXTENDS Grammar, Json, IOUtils, TLCExt
Rec == ndJsonDeserialize(IOEnv.TRACE)
VARIABLE l
SameDir(a, b) == /\ a.dir = b.dir
                 /\ a.dir => /\ a.ws = b.ws /\ a.pfx = b.pfx /\ a.type = b.type /\ a.args[1] = b.args[1]
StepDetect == /\ l <= Len(Rec) /\ Rec[l].op = "detect"
              /\ SameDir(Detect(Rec[l].line), Rec[l].res)
              /\ DetectEquiv(Rec[l].line)
              /\ l' = l + 1
StepCont == /\ l <= Len(Rec) /\ Rec[l].op = "addline"
            /\ LET d == Detect(Rec[l].dline)  a == AddLine(d, Rec[l].cand) IN
               /\ d.dir
               /\ (Ambiguous(d, Rec[l].cand) \/ (a.ok = Rec[l].res.ok /\ (a.ok => a.arg = Rec[l].res.arg)))
               /\ ContEquiv(d, Rec[l].cand)
            /\ l' = l + 1
TraceSpec == l = 1 /\ [][StepDetect \/ StepCont]_l
TraceAccepted == LET d == TLCGet("stats").diameter IN
                 IF d - 1 = Len(Rec) THEN TRUE ELSE Print(<<"TRACE REJECTED at event", d, Rec[d]>>, FALSE)
=============================================================================
