------------------------------- MODULE PpCore -------------------------------
(***************************************************************************)
(* The line machine of txtpp: one pass over one .txtpp source              *)
(* (src/core/execute/pp/mod.rs: Pp::run_internal, iterate_directive,       *)
(* execute_directive, execute_in_collect_deps_mode, format_directive_output*)
(* and src/fs/io_context.rs for what reaches the disk).                    *)
(*                                                                         *)
(* Everything is a string: source lines (without terminator), the output   *)
(* written so far, the raw output of a directive (with "\n" / "\r\n").     *)
(* The grammar is Grammar.tla, the tag store is TagInject.tla.             *)
(*                                                                         *)
(* The environment of a pass is a record env:                              *)
(*   le       the line ending of the source's first line ("\n" | "\r\n")   *)
(*   files    plain files that can be included / cat'ed: name -> content   *)
(*   deps     names that have a .txtpp source (dependencies)               *)
(*   depOut   name -> content of the dependency's output once it is built  *)
(*   trailing the trailing-newline option                                  *)
(*   clean    TRUE in clean mode                                           *)
(***************************************************************************)
EXTENDS Naturals, Sequences, FiniteSets, TLC

G == INSTANCE Grammar
T == INSTANCE TagInject

Ch(s, i) == SubSeq(s, i, i)
StartsWith(s, p) == Len(p) <= Len(s) /\ SubSeq(s, 1, Len(p)) = p
EndsWith(s, p) == Len(p) <= Len(s) /\ SubSeq(s, Len(s) - Len(p) + 1, Len(s)) = p
Drop(s, n) == SubSeq(s, n + 1, Len(s))
JoinS(ss, sep) == T!JoinS(ss, sep)

\* format_directive_output: every line of the raw output gets the directive's indentation, lines
\* are joined by the file's line ending, a final terminator is kept
Format(ws, raw, le) ==
  JoinS([i \in 1..Len(T!RustLines(raw)) |-> ws \o T!RustLines(raw)[i]], le)
  \o (IF T!EndsWithNl(raw) THEN le ELSE "")

-----------------------------------------------------------------------------
\* The commands of the model: a total function from the command string to (stdout, success).
\* Words are separated by spaces and tabs, the first word selects the behaviour.
RECURSIVE Words(_)
Words(s) ==
  LET t == G!TrimStart(s) IN
  IF t = "" THEN <<>>
  ELSE LET ends == {i \in 1..Len(t) : Ch(t, i) \in {" ", "\t"}}
           e == IF ends = {} THEN Len(t) + 1 ELSE CHOOSE i \in ends : \A j \in ends : i <= j
       IN <<SubSeq(t, 1, e - 1)>> \o Words(Drop(t, e - 1))
Scripts == [ pa |-> [out |-> "a", ok |-> TRUE],            \* printf a
             ab |-> [out |-> "a\nb\n", ok |-> TRUE],       \* printf 'a\nb\n'
             cr |-> [out |-> "a\r\nb\r\n", ok |-> TRUE],   \* CRLF output
             x3 |-> [out |-> "zz\n", ok |-> FALSE],        \* prints, then exit 3
             nl |-> [out |-> "\n", ok |-> TRUE],
             mx |-> [out |-> "a\r\nb\nc", ok |-> TRUE] ] \* output that mixes the two endings
RECURSIVE CatAll(_, _)
CatAll(names, fs) ==   \* cat: concatenation; any missing operand fails the command
  IF names = <<>> THEN [out |-> "", ok |-> TRUE]
  ELSE LET r == CatAll(Tail(names), fs) IN
       IF Head(names) \in DOMAIN fs THEN [out |-> fs[Head(names)] \o r.out, ok |-> r.ok]
       ELSE [out |-> r.out, ok |-> FALSE]
CmdEval(cmd, fs) ==
  LET w == Words(cmd) IN
  IF w = <<>> THEN [out |-> "", ok |-> TRUE]
  ELSE CASE w[1] = "echo" -> [out |-> JoinS(Tail(w), " ") \o "\n", ok |-> TRUE]
         [] w[1] = "true" -> [out |-> "", ok |-> TRUE]
         [] w[1] = "false" -> [out |-> "", ok |-> FALSE]
         [] w[1] = "cat" -> CatAll(Tail(w), fs)
         [] w[1] = "sh" -> IF Len(w) = 1 THEN [out |-> "", ok |-> TRUE]
                           ELSE IF w[2] \in DOMAIN Scripts THEN Scripts[w[2]] ELSE [out |-> "", ok |-> FALSE]
         [] OTHER -> [out |-> "", ok |-> FALSE]               \* command not found

-----------------------------------------------------------------------------
\* is this the name of a txtpp source (foo.txtpp, foo.x.txtpp, foo.txtpp.x)?  Catalogue names have
\* at most two dots, which is all the model needs.
RECURSIVE SplitDot(_)
SplitDot(s) == LET i == T!Find(s, ".") IN IF i = 0 THEN <<s>> ELSE <<SubSeq(s, 1, i - 1)>> \o SplitDot(Drop(s, i))
IsTxtppName(p) ==
  LET c == SplitDot(p)  n == Len(c) IN
  /\ n >= 2 /\ ~(n = 2 /\ c[1] = "")                       \* a dot-file has no extension
  /\ (c[n] = "txtpp" \/ (n >= 3 /\ c[n - 1] = "txtpp" /\ ~(n = 3 /\ c[1] = "")))

-----------------------------------------------------------------------------
Init0(mode) ==
  [addNl |-> FALSE, cur |-> <<>>, tags |-> T!Empty, mode |-> mode, deps |-> <<>>,
   out |-> "", temps |-> <<>>, removed |-> <<>>, runs |-> <<>>, err |-> ""]
IsExec(st) == st.mode \in {"first", "exec"}
Fail(st, why) == [st EXCEPT !.err = why]

\* files visible to include / cat at this point: the plain files, overlaid by dependency outputs
\* (only once they are built, i.e. in the final pass) and by the temp files written so far
RECURSIVE Overlay(_, _)
Overlay(fs, temps) ==
  IF temps = <<>> THEN fs
  ELSE LET p == Head(temps)[1]  c == Head(temps)[2] IN
       Overlay([k \in DOMAIN fs \cup {p} |-> IF k = p THEN c ELSE fs[k]], Tail(temps))
Visible(st, env) ==
  LET base == IF st.mode = "exec"
                THEN [k \in DOMAIN env.files \cup env.deps |-> IF k \in env.deps THEN env.depOut[k] ELSE env.files[k]]
                ELSE env.files
  IN Overlay(base, st.temps)

\* write_output with the pending-newline rule of run_internal
Write(st, x, hasTail, env) ==
  IF IsExec(st) THEN [st EXCEPT !.out = @ \o (IF st.addNl THEN env.le ELSE "") \o x, !.addNl = ~hasTail]
  ELSE st

\* execute_directive; hasTail: a source line follows the directive
Exec(st, d, hasTail, env) ==
  LET a1 == d.args[1] IN
  IF env.clean THEN
    \* clean mode: only temp does something (deletes its target); every error is swallowed
    IF d.type = "temp" /\ ~IsTxtppName(a1) THEN [st EXCEPT !.removed = Append(@, a1)] ELSE st
  ELSE IF st.mode # "exec" /\ d.type \in {"include", "after"} /\ a1 \in env.deps
    THEN [st EXCEPT !.mode = "collect", !.deps = Append(@, a1)]
  ELSE IF st.mode = "collect" THEN st
  ELSE
   LET res ==   \* <<kind, payload, st'>>, kind in {"none", "text", "err"}
     CASE d.type \in {"", "after"} -> <<"none", "", st>>
       [] d.type = "run" ->
            LET c == JoinS(d.args, " ")
                st1 == [st EXCEPT !.runs = Append(@, c)]
                r == CmdEval(c, Visible(st, env))
            IN IF r.ok THEN <<"text", r.out, st1>> ELSE <<"err", "run", st1>>
       [] d.type = "include" ->
            IF a1 \in DOMAIN Visible(st, env) THEN <<"text", Visible(st, env)[a1], st>> ELSE <<"err", "include", st>>
       [] d.type = "temp" ->
            IF IsTxtppName(a1) \/ a1 = "" THEN <<"err", "temp", st>>
            ELSE <<"none", "", [st EXCEPT !.temps = Append(@, <<a1, JoinS(Tail(d.args), env.le)>>)]>>
       [] d.type = "tag" ->
            LET c == T!Create(st.tags, a1) IN
            IF c.ok THEN <<"none", "", [st EXCEPT !.tags = c.st]>> ELSE <<"err", "tag", st>>
       [] d.type = "write" -> <<"text", JoinS(d.args, "\n"), st>>
   IN IF res[1] = "err" THEN Fail(res[3], res[2])
      ELSE IF res[1] = "none" THEN res[3]
      ELSE LET s == T!TryStore(res[3].tags, res[2]) IN
           IF s.ok THEN [res[3] EXCEPT !.tags = s.st]                       \* diverted to the listening tag
           ELSE Write(res[3], Format(d.ws, res[2], env.le), hasTail, env)

\* a line arrives while no directive is being accumulated
Fresh(st, line, env) ==
  LET d == G!Detect(line) IN
  IF d.dir THEN
     IF G!Multi(d.type) /\ d.pfx = ""
       THEN (IF env.clean THEN Write(st, "", FALSE, env) ELSE Fail(st, "noprefix"))
       ELSE [st EXCEPT !.cur = <<d>>]
  ELSE IF IsExec(st)
         THEN LET r == T!Inject(st.tags, line, env.le) IN Write([st EXCEPT !.tags = r.st], r.out, FALSE, env)
         ELSE st

\* one iteration of the line loop for a source line
StepLine(st, line, env) ==
  IF st.err # "" THEN st
  ELSE IF st.cur = <<>> THEN Fresh(st, line, env)
  ELSE LET a == G!AddLine(st.cur[1], line) IN
       IF a.ok THEN [st EXCEPT !.cur = <<[st.cur[1] EXCEPT !.args = Append(@, a.arg)]>>]
       ELSE LET s1 == Exec([st EXCEPT !.cur = <<>>], st.cur[1], TRUE, env) IN
            IF s1.err # "" THEN s1 ELSE Fresh(s1, line, env)    \* the tail line is processed normally

\* end of file
Finish(st, env) ==
  IF st.err # "" THEN st
  ELSE LET s1 == IF st.cur = <<>> THEN st ELSE Exec([st EXCEPT !.cur = <<>>], st.cur[1], FALSE, env) IN
       IF s1.err # "" THEN s1
       ELSE IF s1.mode = "collect" THEN s1
       ELSE IF T!HasTags(s1.tags) /\ ~env.clean THEN Fail(s1, "tags")
       ELSE IF s1.addNl /\ env.trailing THEN [s1 EXCEPT !.out = @ \o env.le] ELSE s1

RECURSIVE Steps(_, _, _, _)
Steps(st, src, i, env) == IF i > Len(src) THEN st ELSE Steps(StepLine(st, src[i], env), src, i + 1, env)
Eval(st, src, i, env) == Finish(Steps(st, src, i, env), env)

\* one pass
Pass(src, mode, env) == Eval(Init0(mode), src, 1, env)
\* what the coordinator makes of a file: a first pass, and if that ended collecting dependencies,
\* a final pass once they are built.  Commands before the first dependency run in both passes.
Build(src, env) ==
  LET p1 == Pass(src, "first", env) IN
  IF p1.err = "" /\ p1.mode = "collect"
    THEN \* the temp files written by the first pass are on disk when the final pass runs
         LET env2 == [env EXCEPT !.files = Overlay(env.files, p1.temps)]
             p2 == Pass(src, "exec", env2) IN
         [p2 EXCEPT !.runs = p1.runs \o @, !.deps = p1.deps, !.temps = p1.temps \o @]
    ELSE p1
=============================================================================
