SPECIFICATION ObsSpec
INVARIANTS NoC02 NoC03 NoC04 NoC05 NoC18
POSTCONDITION ObsAccepted
CHECK_DEADLOCK FALSE
