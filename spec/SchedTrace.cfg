SPECIFICATION TraceSpec
CONSTANTS
  NF = 3
  N = 2
  MaxInputs = 3
  DirFiles <- TreeDirFiles
  DirSubs <- TreeDirSubs
  Modes <- BuildClean
  FailKinds <- AllFail
  MaxFail = 3
  Panics = FALSE
INVARIANTS ExitQuiescent Accounting AtMostOnce SuccessComplete CleanInert NoBadRead NoFalseSuccess FailDetected CycleVerdict NoSpuriousCirc NoSpuriousErr Bystanders DepMgrConsistent OnlyRequired
POSTCONDITION TraceAccepted
CHECK_DEADLOCK FALSE
