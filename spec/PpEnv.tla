------------------------------- MODULE PpEnv -------------------------------
(* The environment shared by the PpCore drivers: the plain files of the generated projects and  *)
(* the one dependency d1 (source "D"), as materialised by lib/pp_engine.py (ENV_FILES).          *)
EXTENDS PpCore
PlainFiles == [ p1 |-> "a\n", p2 |-> "a", p3 |-> "a\n\nb\n", e0 |-> "", pc |-> "a\r\nb\nc\r\n", p4 |-> "c\r\n",
                pm |-> "a\nb\r\n" ]   \* pc, pm: files that mix the two endings (CRLF first / LF first)
Env(le, trailing, depNl, clean) ==
  [le |-> le, trailing |-> trailing, clean |-> clean, files |-> PlainFiles, deps |-> {"d1"},
   \* d1.txtpp is the one-line source "D": its output ends with a line ending iff the option is on
   depOut |-> [d1 |-> IF depNl THEN "D\n" ELSE "D"]]

=============================================================================
