-------------------------------- MODULE Cli --------------------------------
(***************************************************************************)
(* The command line layer (src/main.rs): how an argument vector and the    *)
(* TXTPP_FILE environment variable become either a refusal, a usage error  *)
(* or the Config handed to the library - the layer through which every     *)
(* property reaches a user of the binary:                                  *)
(*   C17  a non-empty TXTPP_FILE refuses to start, before anything else;   *)
(*        -s/--shell reaches Config.shell_cmd (build, needed, verify)      *)
(*   C13  -n reaches Config.trailing_newline for build, needed AND verify  *)
(*   C11  positional words are the inputs, none means ".", -r is recursion *)
(*   C09  -N is the only-if-needed build                                   *)
(*   C06 / C07  the subcommands verify / clean select those modes          *)
(*   C04  the exit status is 0 iff the library reports success             *)
(*                                                                         *)
(* The parser is written the way clap works on main.rs's declaration, one  *)
(* token per step: the top level knows -q -v -r -j N -s S -n -N, `clean`   *)
(* knows -q -v -r -j N, `verify` knows those plus -s S -n; at the top      *)
(* level the words clean / verify name the subcommand unless they directly *)
(* follow a positional word (clap keeps feeding a multi-valued positional  *)
(* until an option interrupts it); everything after the subcommand belongs *)
(* to it; an option's value may not start with '-'; no option may be       *)
(* repeated; -q excludes -v.                                               *)
(* A deliberate oddity of the code is modelled as it is: what was given    *)
(* at the top level BEFORE a subcommand is parsed and validated but then   *)
(* ignored (Cli::apply_to only looks at the subcommand's own flags).       *)
(***************************************************************************)
EXTENDS Naturals, Sequences, FiniteSets, TLC, Json

CONSTANTS MaxLen,        \* longest argument vector explored
          Part, Parts    \* this TLC process explores the vectors whose first token has index = Part mod Parts

Flags == {"-q", "-v", "-r", "-n", "-N"}
Opts  == {"-j", "-s"}
Subs  == {"clean", "verify"}
Nums  == {"0", "3"}
Words == {"x.txt", "sub", "SH"}          \* SH stands for the probe shell string
TokenSeq == <<"-q", "-v", "-r", "-n", "-N", "-j", "-s", "clean", "verify", "0", "3", "x.txt", "sub", "SH">>
Tokens == {TokenSeq[i] : i \in 1..Len(TokenSeq)}
Hyphen(t) == t \in Flags \cup Opts

Known(level) == CASE level = "top"    -> Flags \cup Opts
                  [] level = "verify" -> (Flags \ {"-N"}) \cup Opts
                  [] level = "clean"  -> {"-q", "-v", "-r", "-j"}

Blank == [set |-> {}, j |-> "4", s |-> "", inputs |-> <<>>]

VARIABLES envFile,   \* "unset" | "empty" | "set": the TXTPP_FILE variable of the process
          argv,      \* tokens consumed so far
          level,     \* "top" | "clean" | "verify"
          top, sub,  \* what was given at the top level / to the subcommand
          pending,   \* "" or the option waiting for its value
          inPos,     \* the previous token was a positional word (the positional is still being fed)
          status     \* "parsing" | "usage" | "end"
vars == <<envFile, argv, level, top, sub, pending, inPos, status>>

Init == /\ envFile \in {"unset", "empty", "set"}
        /\ argv = <<>> /\ level = "top" /\ top = Blank /\ sub = Blank /\ pending = "" /\ inPos = FALSE /\ status = "parsing"

Cur == IF level = "top" THEN top ELSE sub
SetCur(r) == IF level = "top" THEN top' = r /\ sub' = sub ELSE sub' = r /\ top' = top

Feed(t) ==
  /\ status = "parsing" /\ Len(argv) < MaxLen
  /\ (argv = <<>> => \E i \in 1..Len(TokenSeq) : TokenSeq[i] = t /\ i % Parts = Part)
  /\ argv' = Append(argv, t)
  /\ UNCHANGED envFile
  /\ IF pending # ""
       THEN \* the value of -j / -s
            IF Hyphen(t) \/ (pending = "-j" /\ t \notin Nums)
              THEN status' = "usage" /\ UNCHANGED <<level, top, sub, pending, inPos>>
              ELSE /\ SetCur(IF pending = "-j" THEN [Cur EXCEPT !.j = t] ELSE [Cur EXCEPT !.s = t])
                   /\ pending' = "" /\ inPos' = FALSE /\ UNCHANGED <<level, status>>
     ELSE IF Hyphen(t)
       THEN IF t \notin Known(level) \/ t \in Cur.set
              THEN status' = "usage" /\ UNCHANGED <<level, top, sub, pending, inPos>>
              ELSE /\ SetCur([Cur EXCEPT !.set = @ \cup {t}])
                   /\ pending' = (IF t \in Opts THEN t ELSE "")
                   /\ inPos' = FALSE /\ UNCHANGED <<level, status>>
     ELSE IF t \in Subs /\ level = "top" /\ ~inPos
       THEN level' = t /\ UNCHANGED <<top, sub, pending, inPos, status>>
     ELSE \* a positional word: an input of the current level
          /\ SetCur([Cur EXCEPT !.inputs = Append(@, t)])
          /\ inPos' = TRUE /\ UNCHANGED <<level, pending, status>>

Conflict(r) == {"-q", "-v"} \subseteq r.set
End == /\ status = "parsing"
       /\ status' = IF pending # "" \/ Conflict(top) \/ Conflict(sub) THEN "usage" ELSE "end"
       /\ UNCHANGED <<envFile, argv, level, top, sub, pending, inPos>>

Next == End \/ \E t \in Tokens : Feed(t)
Spec == Init /\ [][Next]_vars

\* ---- what main() does with the outcome
Eff == IF level = "top" THEN top ELSE sub
Config == [mode      |-> CASE level = "clean" -> "clean" [] level = "verify" -> "verify"
                           [] OTHER -> IF "-N" \in top.set THEN "needed" ELSE "build",
           verbosity |-> IF "-q" \in Eff.set THEN "quiet" ELSE IF "-v" \in Eff.set THEN "verbose" ELSE "normal",
           recursive |-> "-r" \in Eff.set,
           threads   |-> Eff.j,
           inputs    |-> IF Eff.inputs = <<>> THEN <<".">> ELSE Eff.inputs,
           shell     |-> IF level = "clean" THEN "" ELSE Eff.s,
           trailing  |-> IF level = "clean" THEN TRUE ELSE "-n" \notin Eff.set]
Outcome == IF envFile = "set" THEN "refused"            \* exit 1, nothing parsed, nothing touched
           ELSE IF status = "usage" THEN "usage"        \* exit 2, nothing touched
           ELSE "run"                                   \* exit 0 iff txtpp(Config) is Ok

\* ---- design-level checks on the layer itself
TypeOK == /\ status \in {"parsing", "usage", "end"} /\ level \in {"top", "clean", "verify"}
          /\ pending \in {""} \cup Opts /\ Len(argv) <= MaxLen
\* the guard does not depend on the arguments at all
GuardFirst == envFile = "set" => Outcome = "refused"
\* clean can never be given a shell or lose its defaults, so it has nothing to execute with
CleanInert == (status = "end" /\ level = "clean") => Config.shell = "" /\ Config.trailing
\* the only-if-needed mode is never combined with verify / clean
NeededIsBuild == (status = "end" /\ Config.mode = "needed") => level = "top"
\* no positional word of the effective level is lost or invented, and order is kept
InputsKept == status = "end" =>
                \/ Config.inputs = <<".">> /\ Eff.inputs = <<>>
                \/ /\ Eff.inputs # <<>> /\ Config.inputs = Eff.inputs
                   /\ \A i \in 1..Len(Eff.inputs) : \E k \in 1..Len(argv) : argv[k] = Eff.inputs[i]
\* every option of the effective level reaches the Config (nothing given to the level that runs is dropped)
OptionsReach == status = "end" =>
                  /\ ("-r" \in Eff.set) = Config.recursive
                  /\ (level # "clean" => ("-n" \in Eff.set) = ~Config.trailing)
                  /\ (level # "clean" => Eff.s = Config.shell)

\* ---- S->I: one line per finished vector
Emit == status \in {"usage", "end"} =>
          PrintT(<<"CLI", ToJson([env |-> envFile, argv |-> argv, outcome |-> Outcome,
                                  ignored |-> (level # "top" /\ top # Blank),
                                  config |-> IF status = "end" THEN Config ELSE [mode |-> "none"]])>>)
=============================================================================
