------------------------------ MODULE Grammar ------------------------------
(***************************************************************************)
(* Directive recognition and continuation (C15).                           *)
(*   operational: Detect / AddLine, in the shape of                        *)
(*     src/core/execute/pp/directive/directive_from.rs (detect_from)       *)
(*     src/core/execute/pp/directive/directive_add_line.rs (add_line)      *)
(*   declarative: IsDirective / DeclArg / Continues, transcribed from the  *)
(*     README section "Syntax" and the statement of C15.                   *)
(* Lines are TLA+ strings (TLC implements Len, \o and SubSeq on strings).  *)
(* Two placeholder characters stand for non-ASCII ones:                    *)
(*     "^"  U+00A0 no-break space: whitespace, 2 bytes in UTF-8            *)
(*     "~"  U+00E9 e-acute: not whitespace, 2 bytes in UTF-8               *)
(***************************************************************************)
EXTENDS Naturals, Sequences, FiniteSets, TLC

Ch(s, i) == SubSeq(s, i, i)
IsWs(c) == c \in {" ", "\t", "^"}
IsWide(c) == c \in {"^", "~"}
StartsWith(s, p) == Len(p) <= Len(s) /\ SubSeq(s, 1, Len(p)) = p
Drop(s, n) == SubSeq(s, n + 1, Len(s))
RECURSIVE TrimEnd(_), TrimStart(_), Spaces(_), ByteLen(_)
TrimEnd(s) == IF Len(s) > 0 /\ IsWs(Ch(s, Len(s))) THEN TrimEnd(SubSeq(s, 1, Len(s) - 1)) ELSE s
TrimStart(s) == IF Len(s) > 0 /\ IsWs(Ch(s, 1)) THEN TrimStart(Drop(s, 1)) ELSE s
Trim(s) == TrimEnd(TrimStart(s))
Spaces(n) == IF n = 0 THEN "" ELSE " " \o Spaces(n - 1)
ByteLen(s) == IF s = "" THEN 0 ELSE (IF IsWide(Ch(s, 1)) THEN 2 ELSE 1) + ByteLen(Drop(s, 1))
\* position of the first occurrence of p in s, 0 if none
Find(s, p) == LET c == {i \in 1..(Len(s) + 1) : i + Len(p) - 1 <= Len(s) /\ SubSeq(s, i, i + Len(p) - 1) = p}
              IN IF c = {} THEN 0 ELSE CHOOSE i \in c : \A j \in c : i <= j

Mark == "TXTPP#"
Types == {"", "include", "after", "run", "temp", "tag", "write"}
Multi(t) == t \in {"", "run", "temp", "write"}
NotDir == [dir |-> FALSE]

-----------------------------------------------------------------------------
\* operational, code-shaped
Detect(line) ==
  LET body == TrimStart(line)
      ws == SubSeq(line, 1, Len(line) - Len(body))
      m == Find(body, Mark)
  IN IF m = 0 THEN NotDir
     ELSE LET rest == Drop(body, m + 5)
              sp == Find(rest, " ")
              name == IF sp = 0 THEN rest ELSE SubSeq(rest, 1, sp - 1)
              arg == IF sp = 0 THEN "" ELSE Trim(Drop(rest, sp))
          IN IF name \in Types
               THEN [dir |-> TRUE, ws |-> ws, pfx |-> SubSeq(body, 1, m - 1), type |-> name, args |-> <<arg>>]
               ELSE NotDir

NoCont == [ok |-> FALSE]
AddLine(d, line) ==
  IF ~Multi(d.type) \/ ~StartsWith(line, d.ws) THEN NoCont
  ELSE LET r == Drop(line, Len(d.ws)) IN
       IF r = TrimEnd(d.pfx) THEN [ok |-> TRUE, arg |-> ""]
       ELSE IF StartsWith(r, d.pfx) THEN [ok |-> TRUE, arg |-> TrimEnd(Drop(r, Len(d.pfx)))]
       ELSE IF StartsWith(r, Spaces(ByteLen(d.pfx))) THEN [ok |-> TRUE, arg |-> TrimEnd(Drop(r, ByteLen(d.pfx)))]
       ELSE NoCont

-----------------------------------------------------------------------------
\* declarative, from the property statement
\* "after its leading whitespace, the first TXTPP# on the line is immediately followed by one of
\*  the names and then a space or end of line; the text before it is the prefix and the trimmed
\*  rest is the first argument"
DirSplits(s) ==
  {<<w, p, n>> \in (0..Len(s)) \X (0..Len(s)) \X Types :
     /\ w + p + 6 + Len(n) <= Len(s)
     /\ \A i \in 1..w : IsWs(Ch(s, i))
     /\ (w < Len(s) => ~IsWs(Ch(s, w + 1)))                                   \* all the leading whitespace
     /\ SubSeq(s, w + p + 1, w + p + 6) = Mark
     /\ \A i \in (w + 1)..(w + p) : SubSeq(s, i, i + 5) # Mark              \* the first occurrence
     /\ SubSeq(s, w + p + 7, w + p + 6 + Len(n)) = n
     /\ (w + p + 6 + Len(n) = Len(s) \/ Ch(s, w + p + 7 + Len(n)) = " ")}    \* then a space or end of line
IsDirective(s) == DirSplits(s) # {}
DeclDirective(s) ==
  LET x == CHOOSE y \in DirSplits(s) : TRUE
      w == x[1]  p == x[2]  n == x[3]
  IN [dir |-> TRUE, ws |-> SubSeq(s, 1, w), pfx |-> SubSeq(s, w + 1, w + p), type |-> n,
      args |-> <<Trim(Drop(s, w + p + 6 + Len(n)))>>]

\* "continues a run/temp/write/empty directive iff it starts with the identical leading whitespace
\*  followed by the same prefix, or by as many spaces as the prefix is long, or consists of the
\*  prefix without its trailing whitespace; its remainder, right-trimmed, becomes the next argument"
\* PrefixLen is the reading of "as long as": characters or bytes (DESIGN 4.3 D5)
ContArgs(d, s, PrefixLen(_)) ==
  IF ~Multi(d.type) \/ ~StartsWith(s, d.ws) THEN {}
  ELSE LET r == Drop(s, Len(d.ws)) IN
       (IF StartsWith(r, d.pfx) THEN {TrimEnd(Drop(r, Len(d.pfx)))} ELSE {})
       \cup (IF StartsWith(r, Spaces(PrefixLen(d.pfx))) THEN {TrimEnd(Drop(r, PrefixLen(d.pfx)))} ELSE {})
       \cup (IF r = TrimEnd(d.pfx) THEN {""} ELSE {})
CharLen(s) == Len(s)
\* the pair is outside the unambiguous domain when the two readings of "length" disagree on it
Ambiguous(d, s) == ContArgs(d, s, CharLen) # ContArgs(d, s, ByteLen)

-----------------------------------------------------------------------------
\* what TLC checks for every enumerated line / pair
DetectEquiv(s) ==
  /\ Detect(s).dir = IsDirective(s)
  /\ Cardinality(DirSplits(s)) <= 1                  \* the statement determines the split
  /\ IsDirective(s) => Detect(s) = DeclDirective(s)
  /\ Detect(s).dir => s = Detect(s).ws \o Detect(s).pfx \o Mark \o Detect(s).type
                             \o SubSeq(s, Len(Detect(s).ws) + Len(Detect(s).pfx) + 7 + Len(Detect(s).type), Len(s))
ContEquiv(d, s) ==
  ~Ambiguous(d, s) =>
     LET a == AddLine(d, s)  c == ContArgs(d, s, ByteLen) IN
     /\ a.ok = (c # {})
     /\ Cardinality(c) <= 1                          \* the statement determines the argument
     /\ a.ok => a.arg \in c
=============================================================================
