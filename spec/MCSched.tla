------------------------------ MODULE MCSched ------------------------------
EXTENDS Sched, Json, TLCExt, SequencesExt
\* directory layouts used by the configurations
NoDirFiles == <<>>
NoDirSubs  == <<>>
\* directory NF+1 holds files 1,2 and sub-directory NF+2, which holds the files 3..NF
TreeDirFiles == [d \in {NF + 1, NF + 2} |-> IF d = NF + 1 THEN {1, 2} \cap Files ELSE {f \in Files : f >= 3}]
TreeDirSubs  == [d \in {NF + 1, NF + 2} |-> IF d = NF + 1 THEN {NF + 2} ELSE {}]
AllFail == {"none", "pre", "post"}
NoFail == {"none"}
BuildOnly == {"build"}
BuildClean == {"build", "clean"}

Sum(f) == LET RECURSIVE S2(_) S2(T) == IF T = {} THEN 0 ELSE LET x == CHOOSE x \in T : TRUE IN f[x] + S2(T \ {x}) IN S2(DOMAIN f)
\* one random scenario per TLC process (simulation mode draws its behaviours from it)
SimInit ==
  /\ deps = [f \in Files |-> IF RandomElement(1..6) = 1
                                THEN RandomElement({{f}, {1}})     \* now and then a self-include or a back edge
                                ELSE RandomElement({S \in SUBSET {g \in Files : g > f} : Cardinality(S) <= 2})]
  /\ failAt = [f \in Files |-> "none"]
  /\ inputs = RandomElement(SeqsUpTo(InputItems, MaxInputs) \ {<<>>})
  /\ recursive = FALSE /\ mode = "build"
  /\ pc = "spawn"
  /\ todo = [i \in 1..Len(inputs) |-> <<"file", inputs[i][2], TRUE>>]
  /\ seen = {} /\ done = 0 /\ total = 0
  /\ queue = <<>> /\ working = {} /\ running = {} /\ chan = <<>>
  /\ outCnt = [f \in Files |-> 0] /\ inEdges = [f \in Files |-> {}] /\ finished = {}
  /\ verdict = "none"
  /\ disk = [f \in Files |-> "old"] /\ finals = [f \in Files |-> 0]
  /\ cmdRuns = [f \in Files |-> 0] /\ badRead = {}
SimSpec == SimInit /\ [][Next]_vars

\* S->I replay: in simulation mode every finished behaviour is printed as the sequence of its states; the
\* harness turns it into a schedule for the real coordinator (lib/sched_engine.py: replay_behaviours)
EmitBehaviour == pc = "returned" =>
   PrintT(<<"BEHAVIOUR", ToJson([i \in 1..Len(Trace) |->
        [deps |-> Trace[i].deps, failAt |-> Trace[i].failAt, inputs |-> Trace[i].inputs, recursive |-> Trace[i].recursive,
         mode |-> Trace[i].mode, pc |-> Trace[i].pc, ntodo |-> Len(Trace[i].todo), seen |-> Cardinality(Trace[i].seen),
         total |-> Trace[i].total, done |-> Trace[i].done, queue |-> Trace[i].queue,
         working |-> SetToSeq(Trace[i].working), running |-> SetToSeq(Trace[i].running), chan |-> Trace[i].chan,
         edges |-> Sum([f \in Files |-> Cardinality(Trace[i].inEdges[f])]), counts |-> Sum(Trace[i].outCnt),
         fin |-> Cardinality(Trace[i].finished), verdict |-> Trace[i].verdict, finals |-> Trace[i].finals,
         cmdRuns |-> Trace[i].cmdRuns, disk |-> Trace[i].disk]])>>)
=============================================================================
