------------------------------ MODULE MCSched ------------------------------
EXTENDS Sched
\* directory layouts used by the configurations
NoDirFiles == <<>>
NoDirSubs  == <<>>
\* directory NF+1 holds files 1,2 and sub-directory NF+2, which holds the files 3..NF
TreeDirFiles == [d \in {NF + 1, NF + 2} |-> IF d = NF + 1 THEN {1, 2} \cap Files ELSE {f \in Files : f >= 3}]
TreeDirSubs  == [d \in {NF + 1, NF + 2} |-> IF d = NF + 1 THEN {NF + 2} ELSE {}]
AllFail == {"none", "pre", "post"}
NoFail == {"none"}
BuildOnly == {"build"}
BuildClean == {"build", "clean"}
=============================================================================
