//! Scheduler engine (C02 C03 C04 C05): projects materialising a dependency digraph, every
//! schedule of the real coordinator enumerated through the gates, a black-box oracle taken
//! from the property statements, and traces for validation against Sched.tla.
use crate::ctl::{self, Ctl, Decision, Wait};
use serde_json::{json, Value};
use std::collections::{BTreeMap, BTreeSet};
use std::path::{Path, PathBuf};
use std::sync::Arc;
use std::time::Duration;
use txtpp::{Config, Mode, Txtpp, Verbosity};

#[derive(Clone, Debug)]
pub struct Scenario {
    pub nf: usize,
    pub deps: Vec<BTreeSet<usize>>, // 1-based file ids, index 0 unused
    pub fail: Vec<String>,          // "none" | "pre" | "post"
    pub inputs: Vec<(String, usize)>, // ("file", f) | ("dir", d) with d in nf+1..
    pub recursive: bool,
    pub mode: String, // "build" | "clean"
    pub n: usize,
    pub alias: usize, // how file inputs are spelled
}

impl Scenario {
    pub fn from_json(v: &Value) -> Scenario {
        let nf = v["nf"].as_u64().unwrap() as usize;
        let mut deps = vec![BTreeSet::new()];
        for d in v["deps"].as_array().unwrap() {
            deps.push(d.as_array().unwrap().iter().map(|x| x.as_u64().unwrap() as usize).collect());
        }
        let mut fail = vec!["none".to_string()];
        match v.get("fail").and_then(|x| x.as_array()) {
            Some(a) => fail.extend(a.iter().map(|x| x.as_str().unwrap().to_string())),
            None => fail.extend((0..nf).map(|_| "none".to_string())),
        }
        let inputs = v["inputs"]
            .as_array()
            .unwrap()
            .iter()
            .map(|x| (x[0].as_str().unwrap().to_string(), x[1].as_u64().unwrap() as usize))
            .collect();
        Scenario {
            nf,
            deps,
            fail,
            inputs,
            recursive: v.get("recursive").and_then(|x| x.as_bool()).unwrap_or(false),
            mode: v.get("mode").and_then(|x| x.as_str()).unwrap_or("build").to_string(),
            n: v.get("n").and_then(|x| x.as_u64()).unwrap_or(2) as usize,
            alias: v.get("alias").and_then(|x| x.as_u64()).unwrap_or(0) as usize,
        }
    }
    pub fn to_json(&self) -> Value {
        json!({
            "nf": self.nf,
            "deps": self.deps[1..].iter().map(|s| s.iter().cloned().collect::<Vec<_>>()).collect::<Vec<_>>(),
            "fail": self.fail[1..].to_vec(),
            "inputs": self.inputs.iter().map(|(k, x)| json!([k, x])).collect::<Vec<_>>(),
            "recursive": self.recursive, "mode": self.mode, "n": self.n, "alias": self.alias,
        })
    }
    /// directory of file f: files 1,2 live in d1, the others in d1/d2
    pub fn dir_of(&self, f: usize) -> &'static str {
        if f <= 2 {
            "d1"
        } else {
            "d1/d2"
        }
    }
    /// (source name, output name) of file f. The three documented name shapes and dotted stems rotate over
    /// the files of a project, so that the route from an include argument / input name to the source is part
    /// of every schedule-level scenario.
    pub fn names(&self, f: usize) -> (String, String) {
        match (self.alias / 3 + 2 * f + f / 3) % 4 {
            0 => (format!("f{f}.txt.txtpp"), format!("f{f}.txt")),
            1 => (format!("f{f}.txtpp.txt"), format!("f{f}.txt")),
            2 => (format!("f{f}.v2.txtpp.txt"), format!("f{f}.v2.txt")),
            _ => (format!("f{f}.v2.txt.txtpp"), format!("f{f}.v2.txt")),
        }
    }
    pub fn src(&self, f: usize) -> String {
        format!("{}/{}", self.dir_of(f), self.names(f).0)
    }
    pub fn out(&self, f: usize) -> String {
        format!("{}/{}", self.dir_of(f), self.names(f).1)
    }
    pub fn dir_name(&self, d: usize) -> &'static str {
        if d == self.nf + 1 {
            "d1"
        } else {
            "d1/d2"
        }
    }
    fn rel(&self, from: usize, to: usize) -> String {
        // path of to's output relative to from's directory
        let name = self.names(to).1;
        match (self.dir_of(from), self.dir_of(to)) {
            (a, b) if a == b => name,
            ("d1", _) => format!("d2/{name}"),
            _ => format!("../{name}"),
        }
    }
    pub fn eff_deps(&self, f: usize) -> BTreeSet<usize> {
        if self.mode == "clean" {
            BTreeSet::new()
        } else {
            self.deps[f].clone()
        }
    }
    pub fn eff_fail(&self, f: usize) -> &str {
        if self.mode == "clean" {
            "none"
        } else {
            &self.fail[f]
        }
    }
    pub fn dir_files(&self, d: usize) -> Vec<usize> {
        (1..=self.nf).filter(|f| self.dir_of(*f) == self.dir_name(d)).collect()
    }
    pub fn requested(&self) -> BTreeSet<usize> {
        let mut r = BTreeSet::new();
        for (k, x) in &self.inputs {
            if k == "file" {
                r.insert(*x);
            } else {
                r.extend(self.dir_files(*x));
                if self.recursive && *x == self.nf + 1 {
                    r.extend(self.dir_files(self.nf + 2));
                }
            }
        }
        r
    }
    pub fn required(&self) -> BTreeSet<usize> {
        let mut r = self.requested();
        loop {
            let mut add = BTreeSet::new();
            for f in &r {
                for d in self.eff_deps(*f) {
                    if !r.contains(&d) {
                        add.insert(d);
                    }
                }
            }
            if add.is_empty() {
                return r;
            }
            r.extend(add);
        }
    }
    fn reach(&self, f: usize) -> BTreeSet<usize> {
        let mut r: BTreeSet<usize> = self.eff_deps(f);
        loop {
            let mut add = BTreeSet::new();
            for g in &r {
                for d in self.eff_deps(*g) {
                    if !r.contains(&d) {
                        add.insert(d);
                    }
                }
            }
            if add.is_empty() {
                return r;
            }
            r.extend(add);
        }
    }
    pub fn on_cycle(&self, f: usize) -> bool {
        self.reach(f).contains(&f)
    }
    pub fn reaches_cycle(&self, f: usize) -> bool {
        self.on_cycle(f) || self.reach(f).iter().any(|g| self.on_cycle(*g))
    }
    /// expected output of f: the files processed one at a time in dependency order
    pub fn expected(&self, f: usize, memo: &mut BTreeMap<usize, String>) -> String {
        if let Some(s) = memo.get(&f) {
            return s.clone();
        }
        let mut s = format!("head{f}\n");
        for d in &self.deps[f] {
            let e = self.expected(*d, memo);
            s.push_str(&e); // the include directive
            s.push_str(&e); // the command placed right after it: cat of the same output
        }
        s.push_str(&format!("tail{f}\n"));
        memo.insert(f, s.clone());
        s
    }
    /// the source of file f: for every dependency an include line immediately followed by a command that reads the
    /// same output (so that a dependency line right after a non-dependency directive is part of every project),
    /// then the marker command
    pub fn source(&self, f: usize, log: &Path) -> String {
        let mut s = format!("head{f}\n");
        if self.fail[f] == "pre" {
            s.push_str(&format!("TXTPP#include no-such-file-{f}\n"));
        }
        for (i, d) in self.deps[f].iter().enumerate() {
            if i % 2 == 0 {
                s.push_str(&format!("TXTPP#include {}\n", self.rel(f, *d)));
                s.push_str(&format!("// TXTPP#run cat {}\n", self.rel(f, *d)));
            } else {
                // `after` + two reads: same text, other directive kinds
                s.push_str(&format!("TXTPP#after {}\n", self.rel(f, *d)));
                s.push_str(&format!("// TXTPP#run cat {0} {0}\n", self.rel(f, *d)));
            }
        }
        s.push_str(&format!("-TXTPP#run echo m{f} >> '{}'\n", log.display()));
        if self.fail[f] == "post" {
            s.push_str(&format!("TXTPP#include no-such-file-{f}\n"));
        }
        s.push_str(&format!("tail{f}\n"));
        s
    }
    pub fn materialise(&self, root: &Path) -> PathBuf {
        let log = root.join("markers.log");
        let base = root.join("base");
        std::fs::create_dir_all(base.join("d1/d2")).unwrap();
        for f in 1..=self.nf {
            std::fs::write(base.join(self.src(f)), self.source(f, &log)).unwrap();
            std::fs::write(base.join(self.out(f)), format!("STALE{f}\n")).unwrap();
        }
        std::fs::write(&log, "").unwrap();
        base
    }
    pub fn input_strings(&self, base: &Path) -> Vec<String> {
        self.inputs
            .iter()
            .enumerate()
            .map(|(i, (k, x))| {
                if k == "dir" {
                    self.dir_name(*x).to_string()
                } else {
                    match (self.alias + i) % 4 {
                        0 => self.src(*x),
                        1 => self.out(*x),
                        2 => format!("./d1/../{}", self.src(*x)),
                        _ => base.join(self.out(*x)).display().to_string(),
                    }
                }
            })
            .collect()
    }
    pub fn config(&self, base: &Path) -> Config {
        Config {
            base_dir: base.to_path_buf(),
            shell_cmd: String::new(),
            inputs: self.input_strings(base),
            recursive: self.recursive,
            num_threads: self.n,
            mode: if self.mode == "clean" { Mode::Clean } else { Mode::Build },
            verbosity: Verbosity::Quiet,
            trailing_newline: true,
        }
    }
    /// translate a name printed by txtpp (relative to the base directory) to a spec id
    pub fn id_of(&self, name: &str) -> i64 {
        for f in 1..=self.nf {
            if name == self.src(f) {
                return f as i64;
            }
        }
        if name == "d1" {
            return (self.nf + 1) as i64;
        }
        if name == "d1/d2" {
            return (self.nf + 2) as i64;
        }
        0
    }
}

pub struct RunOutcome {
    pub verdict: String, // ok | err | hang | panic | stuck
    pub choices: Vec<(usize, usize)>,
    pub events: Vec<Value>,
    pub detail: String,
}

/// Run txtpp on its own thread under `ctl`. The returned receiver yields the verdict when
/// (if) `Txtpp::run` returns.
pub fn spawn_run(cfg: Config, ctl: Arc<Ctl>) -> std::sync::mpsc::Receiver<Result<bool, String>> {
    let (tx, rx) = std::sync::mpsc::channel();
    std::thread::Builder::new()
        .name("vh-runner".into())
        .spawn(move || {
            ctl::register_thread(&ctl);
            txtpp::verif::install(Some(Arc::new(ctl::Handle(ctl.clone()))));
            let r = std::panic::catch_unwind(std::panic::AssertUnwindSafe(|| Txtpp::run(cfg)));
            txtpp::verif::install(None);
            ctl::unregister_thread();
            let _ = tx.send(match r {
                Ok(r) => Ok(r.is_ok()),
                Err(_) => Err("coordinator panicked".to_string()),
            });
        })
        .unwrap();
    rx
}

pub enum Policy<'a> {
    /// follow the prefix, then always the first enabled decision
    Prefix(&'a [usize]),
    /// follow the prefix, then choose at random
    Random(&'a [usize], u64),
    /// random schedule in which the coordinator polls once although the channel is empty and tasks are outstanding
    /// (at the step given by the second component)
    Probe(u64, usize),
    /// at every point take the enabled decision that comes first in this list of wishes
    /// (action "begin" | "end" | "poll", task kind, file name, first pass)
    Guided(&'a [(String, String, String, bool)]),
}

fn xorshift(s: &mut u64) -> u64 {
    let mut x = *s;
    x ^= x << 13;
    x ^= x >> 7;
    x ^= x << 17;
    *s = x;
    x
}

pub fn run_controlled(cfg: Config, n: usize, policy: Policy) -> RunOutcome {
    run_controlled_opts(cfg, n, policy, false)
}

pub fn run_controlled_opts(cfg: Config, n: usize, policy: Policy, gate_runs: bool) -> RunOutcome {
    let mut ctl = Ctl::new(ctl::Mode::Controlled, n);
    Arc::get_mut(&mut ctl).unwrap().gate_runs = gate_runs;
    let rx = spawn_run(cfg, ctl.clone());
    let mut choices = vec![];
    let mut step = 0usize;
    let mut rng = match &policy {
        Policy::Random(_, s) => *s | 1,
        Policy::Probe(s, _) => *s | 1,
        _ => 1,
    };
    let mut probed = false;
    let mut wishes: Vec<(String, String, String, bool)> = match &policy {
        Policy::Guided(w) => w.to_vec(),
        _ => vec![],
    };
    let mut verdict = String::new();
    let mut detail = String::new();
    let mut idle = 0usize;
    loop {
        match ctl.wait_quiescent(Duration::from_secs(30)) {
            Wait::Finished => break,
            Wait::Problem(p) => {
                let g = ctl.inner.lock().unwrap();
                verdict = if g.problem.as_deref().map(|s| s.starts_with("panic")).unwrap_or(false) {
                    "panic".into()
                } else if p.starts_with("hang") {
                    "hang".into()
                } else {
                    "stuck".into()
                };
                detail = format!("{p}");
                break;
            }
            Wait::Quiescent => {
                if ctl.is_idle() {
                    idle += 1;
                    if idle > 3 {
                        let g = ctl.inner.lock().unwrap();
                        verdict = if g.problem.as_deref().map(|s| s.starts_with("panic")).unwrap_or(false) {
                            "panic".into()
                        } else {
                            "hang".into()
                        };
                        detail = format!("coordinator keeps polling with nothing outstanding: done={} total={} {:?}", g.done, g.total, g.problem);
                        break;
                    }
                } else {
                    idle = 0;
                }
                let mut en = ctl.enabled();
                if let Policy::Probe(_, at) = &policy {
                    if !probed && step >= *at {
                        let with = ctl.enabled_opt(true);
                        if with.len() > en.len() {
                            // the extra decision is the empty poll: take it now
                            probed = true;
                            en = with;
                            let idx = en.len() - 1;
                            choices.push((idx, en.len()));
                            ctl.apply(&en[idx]);
                            step += 1;
                            continue;
                        }
                    }
                }
                if en.is_empty() {
                    verdict = "stuck".into();
                    detail = "no decision enabled".into();
                    break;
                }
                let idx = match &policy {
                    Policy::Prefix(p) => p.get(step).cloned().unwrap_or(0).min(en.len() - 1),
                    Policy::Probe(_, _) => (xorshift(&mut rng) % en.len() as u64) as usize,
                    Policy::Random(p, _) => match p.get(step) {
                        Some(i) => (*i).min(en.len() - 1),
                        None => (xorshift(&mut rng) % en.len() as u64) as usize,
                    },
                    Policy::Guided(_) => {
                        let mut pick = None;
                        {
                            let g = ctl.inner.lock().unwrap();
                            for (wi, w) in wishes.iter().enumerate() {
                                let hit = en.iter().position(|d| match d {
                                    Decision::Poll => w.0 == "poll",
                                    Decision::Cont(_) => false,
                                    Decision::Begin(t) => w.0 == "begin" && g.tasks[*t].kind == w.1 && g.tasks[*t].file == w.2 && g.tasks[*t].first == w.3,
                                    Decision::End(t) => w.0 == "end" && g.tasks[*t].kind == w.1 && g.tasks[*t].file == w.2 && g.tasks[*t].first == w.3,
                                });
                                if let Some(i) = hit {
                                    pick = Some((wi, i));
                                    break;
                                }
                            }
                        }
                        match pick {
                            Some((wi, i)) => {
                                wishes.remove(wi);
                                i
                            }
                            None => 0,
                        }
                    }
                };
                choices.push((idx, en.len()));
                ctl.apply(&en[idx]);
                step += 1;
            }
        }
    }
    if verdict.is_empty() {
        // the run is over: Drop joins the pool (the gates are open now) and returns
        match rx.recv_timeout(Duration::from_secs(10)) {
            Ok(Ok(ok)) => verdict = if ok { "ok".into() } else { "err".into() },
            Ok(Err(e)) => {
                verdict = "panic".into();
                detail = e;
            }
            Err(_) => {
                verdict = "hang".into();
                detail = "Txtpp::run did not return after the coordinator finished".into();
            }
        }
    } else {
        // abandon the run: its threads stay parked (or are released to die quietly)
        ctl.release_all();
    }
    let events = ctl.take_events();
    RunOutcome { verdict, choices, events, detail }
}

/// run without controlling the schedule (real races), still without the 100 ms sleeps
pub fn run_free(cfg: Config, n: usize, jitter: Option<u64>, log_pp: bool) -> RunOutcome {
    run_free_opts(cfg, n, jitter, log_pp, None)
}

pub fn run_free_opts(cfg: Config, n: usize, jitter: Option<u64>, log_pp: bool, crash_at: Option<usize>) -> RunOutcome {
    let mut c = Ctl::new(ctl::Mode::Free, n);
    Arc::get_mut(&mut c).unwrap().jitter = jitter;
    c.inner.lock().unwrap().log_pp = log_pp;
    c.inner.lock().unwrap().crash_at = crash_at;
    let rx = spawn_run(cfg, c.clone());
    let mut verdict;
    let mut detail = String::new();
    let deadline = std::time::Instant::now() + Duration::from_secs(30);
    loop {
        match rx.recv_timeout(Duration::from_millis(50)) {
            Ok(Ok(ok)) => {
                verdict = if ok { "ok".to_string() } else { "err".to_string() };
                break;
            }
            Ok(Err(e)) => {
                verdict = "panic".into();
                detail = e;
                break;
            }
            Err(_) => {
                let g = c.inner.lock().unwrap();
                if let Some(p) = &g.problem {
                    if p.starts_with("hang") || p.starts_with("free-running wait") {
                        verdict = "hang".into();
                        detail = p.clone();
                        break;
                    }
                }
                if std::time::Instant::now() > deadline {
                    verdict = "hang".into();
                    detail = format!("no result after 30 s: {:?}", g.problem);
                    break;
                }
            }
        }
    }
    {
        let g = c.inner.lock().unwrap();
        if let Some(p) = &g.problem {
            if p.starts_with("panic") {
                verdict = "panic".into();
                detail = p.clone();
            }
        }
    }
    if verdict == "hang" || verdict == "panic" {
        c.release_all();
    }
    let events = c.take_events();
    if verdict == "hang" {
        // a task whose last sign of life is the start of a shell command is waiting for that command: a command that
        // does not terminate is the project's business, not a hang of txtpp
        let mut open_cmd = false;
        let mut last: std::collections::HashMap<String, &str> = std::collections::HashMap::new();
        for e in &events {
            if let (Some(k), Some(f)) = (e["e"].as_str(), e["f"].as_str()) {
                if matches!(k, "begin" | "run" | "end") {
                    last.insert(f.to_string(), k);
                }
            }
        }
        for (_, k) in last {
            if k == "run" {
                open_cmd = true;
            }
        }
        if open_cmd {
            verdict = "cmd-timeout".into();
        }
    }
    RunOutcome { verdict, choices: vec![], events, detail }
}

/// run exactly as in production: no gate at all (the coordinator polls and sleeps on its own), only recording
pub fn run_ungated(cfg: Config, n: usize) -> RunOutcome {
    let c = Ctl::new(ctl::Mode::Ungated, n);
    let rx = spawn_run(cfg, c.clone());
    let (verdict, detail) = match rx.recv_timeout(Duration::from_secs(60)) {
        Ok(Ok(ok)) => (if ok { "ok".to_string() } else { "err".to_string() }, String::new()),
        Ok(Err(e)) => ("panic".to_string(), e),
        Err(_) => {
            c.release_all();
            ("hang".to_string(), "no result after 60 s".to_string())
        }
    };
    let events = c.take_events();
    RunOutcome { verdict, choices: vec![], events, detail }
}

/// Black-box oracle: the statements of C02-C05 applied to what the run left behind.
/// Returns (property, message) pairs.
pub fn judge(sc: &Scenario, base: &Path, verdict: &str) -> Vec<(String, String)> {
    let mut v = vec![];
    let root = base.parent().unwrap();
    let log = std::fs::read_to_string(root.join("markers.log")).unwrap_or_default();
    let mut marks: BTreeMap<usize, usize> = BTreeMap::new();
    for l in log.lines() {
        if let Some(n) = l.strip_prefix('m').and_then(|x| x.parse::<usize>().ok()) {
            *marks.entry(n).or_insert(0) += 1;
        }
    }
    let required = sc.required();
    let any_fail = required.iter().any(|f| sc.eff_fail(*f) != "none");
    let cyclic = required.iter().any(|f| sc.reaches_cycle(*f));
    let mut memo = BTreeMap::new();
    let read = |f: usize| std::fs::read(base.join(sc.out(f))).ok();
    match verdict {
        "hang" | "stuck" => v.push(("C03".into(), format!("run does not terminate ({verdict})"))),
        "panic" => v.push(("C18".into(), "a thread panicked".into())),
        _ => {}
    }
    // C03: nothing is completed twice
    for (f, n) in &marks {
        if *n > 1 {
            v.push(("C03".into(), format!("command of f{f} executed {n} times")));
        }
        if sc.mode == "clean" {
            v.push(("C07".into(), format!("clean executed the command of f{f}")));
        }
    }
    if verdict == "ok" {
        if any_fail {
            v.push(("C04".into(), "success reported although a required file fails".into()));
        }
        if cyclic {
            v.push(("C05".into(), "success reported although a required file reaches a cycle".into()));
        }
        if !any_fail && !cyclic {
            for f in &required {
                if sc.mode == "clean" {
                    if read(*f).is_some() {
                        v.push(("C03".into(), format!("clean succeeded but output of f{f} still exists")));
                    }
                    continue;
                }
                let exp = sc.expected(*f, &mut memo);
                match read(*f) {
                    None => v.push(("C03".into(), format!("success but output of f{f} missing"))),
                    Some(b) if b != exp.as_bytes() => v.push((
                        "C02".into(),
                        format!("output of f{f} differs from the one-at-a-time build: {:?}", String::from_utf8_lossy(&b)),
                    )),
                    _ => {}
                }
                if marks.get(f).cloned().unwrap_or(0) != 1 {
                    v.push(("C03".into(), format!("success but command of f{f} executed {} times", marks.get(f).cloned().unwrap_or(0))));
                }
            }
        }
    }
    if verdict == "err" {
        if !any_fail && !cyclic {
            v.push(("C05".into(), "failure reported for an acyclic project without faults".into()));
        }
        if !any_fail && cyclic && sc.mode != "clean" {
            // bystanders must have been built correctly
            for f in &required {
                if !sc.reaches_cycle(*f) {
                    let exp = sc.expected(*f, &mut memo);
                    match read(*f) {
                        Some(b) if b == exp.as_bytes() => {}
                        other => v.push((
                            "C05".into(),
                            format!("bystander f{f} not built correctly: {:?}", other.map(|b| String::from_utf8_lossy(&b).to_string())),
                        )),
                    }
                }
            }
        }
    }
    // files that were not required keep their stale content
    for f in 1..=sc.nf {
        if !required.contains(&f) {
            match read(f) {
                Some(b) if b == format!("STALE{f}\n").as_bytes() => {}
                other => v.push((
                    "C11".into(),
                    format!("f{f} was not required but its output changed: {:?}", other.map(|b| String::from_utf8_lossy(&b).to_string())),
                )),
            }
        }
    }
    v
}

/// events of one run in the vocabulary of SchedTrace.tla
pub fn trace_for_tlc(sc: &Scenario, events: &[Value]) -> Vec<Value> {
    let mut out = vec![json!({
        "event": "init", "nf": sc.nf, "n": sc.n,
        "deps": sc.deps[1..].iter().map(|s| s.iter().cloned().collect::<Vec<_>>()).collect::<Vec<_>>(),
        "fail": sc.fail[1..].to_vec(),
        "inputs": sc.inputs.iter().map(|(k, x)| json!([k, x])).collect::<Vec<_>>(),
        "recursive": sc.recursive, "mode": sc.mode,
    })];
    for e in events {
        let name = e["e"].as_str().unwrap_or("");
        let id = e.get("f").and_then(|x| x.as_str()).map(|s| sc.id_of(s)).unwrap_or(0);
        let k = e.get("k").and_then(|x| x.as_str()).unwrap_or("file");
        match name {
            "spawn" => out.push(json!({"event": "spawn", "k": k, "id": id, "first": e["first"], "total": e["total"]})),
            "dedup" => out.push(json!({"event": "dedup", "id": id})),
            "begin" => out.push(json!({"event": "begin", "k": k, "id": id, "first": e["first"]})),
            "end" => out.push(json!({"event": "work", "k": k, "id": id, "first": e["first"], "r": e["r"]})),
            "sent" => out.push(json!({"event": "sent", "k": k, "id": id, "first": e["first"], "r": e["r"]})),
            "poll" => out.push(json!({"event": "poll", "done": e["done"], "total": e["total"],
                                      "edges": e["edges"], "counts": e["counts"], "fin": e["fin"]})),
            "recv" => out.push(json!({"event": "recv", "k": k, "id": id, "r": e["r"], "done": e["done"], "total": e["total"]})),
            "finish" => out.push(json!({"event": "finish", "ok": e["ok"]})),
            "hang" => out.push(json!({"event": "hang"})),
            "panic" => out.push(json!({"event": "panic"})),
            _ => {}
        }
    }
    out
}

/// next prefix in depth-first order, or None when the tree is exhausted
pub fn next_prefix(choices: &[(usize, usize)]) -> Option<Vec<usize>> {
    let mut i = choices.len();
    while i > 0 {
        i -= 1;
        if choices[i].0 + 1 < choices[i].1 {
            let mut p: Vec<usize> = choices[..i].iter().map(|c| c.0).collect();
            p.push(choices[i].0 + 1);
            return Some(p);
        }
    }
    None
}

pub fn digraph(nf: usize, g: usize) -> Vec<BTreeSet<usize>> {
    // bit (i*nf + j) of g: edge (i+1) -> (j+1)
    let mut deps = vec![BTreeSet::new(); nf + 1];
    for i in 0..nf {
        for j in 0..nf {
            if (g >> (i * nf + j)) & 1 == 1 {
                deps[i + 1].insert(j + 1);
            }
        }
    }
    deps
}
