//! Controller for the `verif` hooks of txtpp: records the events of one run and, in
//! controlled mode, turns the scheduling nondeterminism of the run (which picked task
//! starts its body, which finished task sends, when the coordinator polls) into
//! decisions taken by the caller.
use serde_json::{json, Value};
use std::collections::HashMap;
use std::sync::{Arc, Condvar, Mutex, OnceLock};
use std::thread::ThreadId;
use std::time::{Duration, Instant};
use txtpp::verif::{Controller, Guard, PpStep};

#[derive(Clone, Copy, PartialEq, Eq, Debug)]
pub enum TStat {
    Queued,
    AtBegin,
    Working,
    AtSend,
    /// parked inside the body, just before a shell command starts (only when command gates are on)
    AtRun,
    Sending,
    Sent,
    Dead,
}

#[derive(Clone, Debug)]
pub struct TaskRec {
    pub id: usize,
    pub kind: String,
    pub file: String,
    pub first: bool,
    pub stat: TStat,
    pub result: String,
    pub deps: Vec<String>,
    pub thread: Option<ThreadId>,
    begin_ok: bool,
    send_ok: bool,
    run_ok: bool,
}

#[derive(Clone, Copy, PartialEq, Eq, Debug)]
pub enum Coord {
    Running,
    AtPoll,
    Finished,
}

#[derive(Clone, Copy, PartialEq, Eq, Debug)]
pub enum Mode {
    /// every gate blocks until the driver releases it
    Controlled,
    /// nothing blocks except the coordinator, which waits at the poll gate until a result is
    /// in the channel or nothing is outstanding (so that it never sleeps 100 ms)
    Free,
    /// nothing blocks at all: the coordinator polls and sleeps exactly as in production
    Ungated,
}

pub struct Inner {
    pub events: Vec<Value>,
    pub tasks: Vec<TaskRec>,
    pub coord: Coord,
    poll_ok: bool,
    pub done: usize,
    pub total: usize,
    pub dep_stats: (usize, usize, usize),
    pub recvd: usize,
    pub sent: usize,
    pub finished: Option<bool>,
    pub drain: bool,
    send_busy: bool,
    pub problem: Option<String>,
    pub log_pp: bool,
    pub crash_at: Option<usize>,
    pub idle_polls: usize,
}

pub struct Ctl {
    pub inner: Mutex<Inner>,
    pub cv: Condvar,
    pub mode: Mode,
    pub nthreads: usize,
    pub jitter: Option<u64>,
    /// controlled mode only: a task also parks before each of its shell commands, so that the driver can interleave other
    /// tasks with the middle of a pass body (the output of that pass is truncated / partly written at that point)
    pub gate_runs: bool,
}

#[derive(Debug, Clone, PartialEq, Eq)]
pub enum Decision {
    Begin(usize),
    End(usize),
    /// let a task parked before a shell command go on
    Cont(usize),
    Poll,
}

pub enum Wait {
    Quiescent,
    Finished,
    Problem(String),
}

fn registry() -> &'static Mutex<HashMap<ThreadId, Arc<Ctl>>> {
    static R: OnceLock<Mutex<HashMap<ThreadId, Arc<Ctl>>>> = OnceLock::new();
    R.get_or_init(|| Mutex::new(HashMap::new()))
}

/// Install a process-wide panic hook that reports panics of threads working for a run to
/// the controller of that run. Panics are data, not failures of the harness.
pub fn install_panic_hook() {
    std::panic::set_hook(Box::new(|info| {
        let tid = std::thread::current().id();
        let ctl = registry().lock().unwrap().get(&tid).cloned();
        let msg = format!("{info}");
        if let Some(c) = ctl {
            c.note_panic(tid, &msg);
        } else {
            eprintln!("harness thread panicked: {msg}");
        }
    }));
}

pub fn register_thread(c: &Arc<Ctl>) {
    registry()
        .lock()
        .unwrap()
        .insert(std::thread::current().id(), c.clone());
}
pub fn unregister_thread() {
    registry()
        .lock()
        .unwrap()
        .remove(&std::thread::current().id());
}

impl Ctl {
    pub fn new(mode: Mode, nthreads: usize) -> Arc<Ctl> {
        Arc::new(Ctl {
            inner: Mutex::new(Inner {
                events: vec![],
                tasks: vec![],
                coord: Coord::Running,
                poll_ok: false,
                done: 0,
                total: 0,
                dep_stats: (0, 0, 0),
                recvd: 0,
                sent: 0,
                finished: None,
                drain: false,
                send_busy: false,
                problem: None,
                log_pp: false,
                crash_at: None,
                idle_polls: 0,
            }),
            cv: Condvar::new(),
            mode,
            nthreads: nthreads.max(1),
            jitter: None,
            gate_runs: false,
        })
    }

    fn me(self: &Arc<Self>) -> Arc<Ctl> {
        self.clone()
    }

    fn note_panic(&self, tid: ThreadId, msg: &str) {
        let mut g = self.inner.lock().unwrap();
        let mut hit = false;
        for t in g.tasks.iter_mut() {
            if t.thread == Some(tid) && matches!(t.stat, TStat::Working | TStat::AtBegin) {
                t.stat = TStat::Dead;
                hit = true;
            }
        }
        let short: String = msg.chars().take(300).collect();
        g.events
            .push(json!({"e": "panic", "worker": hit, "msg": short}));
        if !hit {
            // the coordinator thread itself: let everything go so that Drop can join the pool
            g.drain = true;
        }
        if g.problem.is_none() {
            g.problem = Some(format!("panic: {short}"));
        }
        self.cv.notify_all();
    }

    fn push(&self, g: &mut Inner, ev: Value) {
        g.events.push(ev);
        if let Some(k) = g.crash_at {
            if g.events.len() >= k {
                // deterministic crash point: die like SIGKILL would
                unsafe { libc::_exit(137) };
            }
        }
    }

    fn maybe_jitter(&self, salt: usize) {
        if let Some(seed) = self.jitter {
            // cheap deterministic-ish hash -> 0..200us
            let x = (seed ^ (salt as u64).wrapping_mul(0x9E3779B97F4A7C15)).wrapping_mul(0xBF58476D1CE4E5B9);
            let us = (x >> 40) % 200;
            if us > 20 {
                std::thread::sleep(Duration::from_micros(us));
            } else {
                std::thread::yield_now();
            }
        }
    }

    // ---- driver side ----
    fn counts(g: &Inner) -> (usize, usize, usize, usize) {
        // (queued, active, moving, parked)
        let mut q = 0;
        let mut a = 0;
        let mut m = 0;
        let mut p = 0;
        for t in &g.tasks {
            match t.stat {
                TStat::Queued => q += 1,
                TStat::AtBegin | TStat::AtSend | TStat::AtRun => {
                    a += 1;
                    p += 1
                }
                TStat::Working | TStat::Sending => {
                    a += 1;
                    m += 1
                }
                _ => {}
            }
        }
        (q, a, m, p)
    }

    /// wait until every thread of the run is parked at a gate (or the run is over)
    pub fn wait_quiescent(&self, timeout: Duration) -> Wait {
        let deadline = Instant::now() + timeout;
        let mut g = self.inner.lock().unwrap();
        loop {
            if g.coord == Coord::Finished {
                return Wait::Finished;
            }
            if let Some(p) = &g.problem {
                if p.starts_with("hang: runaway") {
                    return Wait::Problem(p.clone());
                }
            }
            let (q, a, m, _p) = Self::counts(&g);
            if g.coord == Coord::AtPoll && m == 0 && (q == 0 || a >= self.nthreads) && !g.drain {
                return Wait::Quiescent;
            }
            let now = Instant::now();
            if now >= deadline {
                let why = format!(
                    "stuck: coord={:?} queued={q} active={a} moving={m} problem={:?}",
                    g.coord, g.problem
                );
                return Wait::Problem(why);
            }
            let (g2, _) = self.cv.wait_timeout(g, deadline - now).unwrap();
            g = g2;
        }
    }

    /// decisions enabled in the current quiescent state, in a canonical order
    pub fn enabled(&self) -> Vec<Decision> {
        self.enabled_opt(false)
    }

    /// `empty_poll`: also offer a poll although the channel is empty and tasks are outstanding - what the real coordinator
    /// does every 100 ms (it costs that sleep unless the code leaves its loop, which is exactly what is being probed)
    pub fn enabled_opt(&self, empty_poll: bool) -> Vec<Decision> {
        let g = self.inner.lock().unwrap();
        let mut v = vec![];
        for t in &g.tasks {
            if t.stat == TStat::AtBegin {
                v.push(Decision::Begin(t.id));
            }
        }
        for t in &g.tasks {
            if t.stat == TStat::AtRun {
                v.push(Decision::Cont(t.id));
            }
        }
        for t in &g.tasks {
            if t.stat == TStat::AtSend {
                v.push(Decision::End(t.id));
            }
        }
        let (q, a, _, _) = Self::counts(&g);
        let in_chan = g.sent - g.recvd;
        if in_chan > 0 || (q == 0 && a == 0) || empty_poll {
            v.push(Decision::Poll);
        }
        v
    }

    /// nothing can ever arrive any more: if the coordinator polls now and neither receives nor leaves its loop, it
    /// will poll forever (the driver lets it try a few times before calling that a hang - what the exit test is, is the
    /// code's business, not the controller's)
    pub fn is_idle(&self) -> bool {
        let g = self.inner.lock().unwrap();
        let (q, a, _, _) = Self::counts(&g);
        g.coord == Coord::AtPoll && q == 0 && a == 0 && g.sent == g.recvd
    }

    pub fn apply(&self, d: &Decision) {
        let mut g = self.inner.lock().unwrap();
        match d {
            Decision::Begin(id) => g.tasks[*id].begin_ok = true,
            Decision::End(id) => g.tasks[*id].send_ok = true,
            Decision::Cont(id) => g.tasks[*id].run_ok = true,
            Decision::Poll => g.poll_ok = true,
        }
        // the gate may only be observed as passed once the thread has moved on
        match d {
            Decision::Begin(id) => g.tasks[*id].stat = TStat::Working,
            Decision::End(id) => g.tasks[*id].stat = TStat::Sending,
            Decision::Cont(id) => g.tasks[*id].stat = TStat::Working,
            Decision::Poll => g.coord = Coord::Running,
        }
        self.cv.notify_all();
    }

    pub fn release_all(&self) {
        let mut g = self.inner.lock().unwrap();
        g.drain = true;
        self.cv.notify_all();
    }

    pub fn take_events(&self) -> Vec<Value> {
        std::mem::take(&mut self.inner.lock().unwrap().events)
    }
}

struct SendGuard {
    ctl: Arc<Ctl>,
    id: usize,
}
impl Drop for SendGuard {
    fn drop(&mut self) {
        let mut g = self.ctl.inner.lock().unwrap();
        // (the `sent` event was logged when the send lock was taken, i.e. before the message could be received)
        let t = &mut g.tasks[self.id];
        t.stat = TStat::Sent;
        g.sent += 1;
        g.send_busy = false;
        self.ctl.cv.notify_all();
    }
}

/// The object handed to txtpp. It only forwards to the shared `Ctl`.
pub struct Handle(pub Arc<Ctl>);

impl Controller for Handle {
    fn on_spawn(&self, kind: &str, file: &str, first: bool, total: usize) {
        let c = &self.0;
        let mut g = c.inner.lock().unwrap();
        let id = g.tasks.len();
        g.tasks.push(TaskRec {
            id,
            kind: kind.to_string(),
            file: file.to_string(),
            first,
            stat: TStat::Queued,
            result: String::new(),
            deps: vec![],
            thread: None,
            begin_ok: false,
            send_ok: false,
            run_ok: false,
        });
        g.total = total;
        c.push(&mut g, json!({"e": "spawn", "k": kind, "f": file, "first": first, "total": total, "t": id}));
        c.cv.notify_all();
        if g.tasks.len() > 400 {
            // no project of the harness needs that many tasks: the coordinator spawns without end
            g.problem.get_or_insert("hang: runaway spawning (more than 400 tasks)".into());
            c.push(&mut g, json!({"e": "hang", "done": 0, "total": total}));
            g.drain = true;
            c.cv.notify_all();
            loop {
                g = c.cv.wait(g).unwrap();
            }
        }
    }

    fn on_dedup(&self, file: &str) {
        let c = &self.0;
        let mut g = c.inner.lock().unwrap();
        c.push(&mut g, json!({"e": "dedup", "f": file}));
    }

    fn on_begin(&self, kind: &str, file: &str, first: bool) {
        let c = &self.0;
        register_thread(&c.me());
        let tid = std::thread::current().id();
        let mut g = c.inner.lock().unwrap();
        let id = match g
            .tasks
            .iter()
            .position(|t| t.stat == TStat::Queued && t.kind == kind && t.file == file && t.first == first)
        {
            Some(i) => i,
            None => {
                g.problem.get_or_insert(format!("begin of unknown task {kind} {file} {first}"));
                return;
            }
        };
        g.tasks[id].stat = TStat::AtBegin;
        g.tasks[id].thread = Some(tid);
        c.cv.notify_all();
        if c.mode == Mode::Controlled {
            while !g.tasks[id].begin_ok && !g.drain {
                g = c.cv.wait(g).unwrap();
            }
        }
        g.tasks[id].stat = TStat::Working;
        c.push(&mut g, json!({"e": "begin", "k": kind, "f": file, "first": first, "t": id}));
        drop(g);
        c.maybe_jitter(id * 2 + 1);
    }

    fn on_send(&self, kind: &str, file: &str, first: bool, result: &str, deps: &[String]) -> Option<Guard> {
        let c = &self.0;
        let tid = std::thread::current().id();
        c.maybe_jitter(file.len() * 7 + result.len());
        let mut g = c.inner.lock().unwrap();
        let id = match g
            .tasks
            .iter()
            .position(|t| t.thread == Some(tid) && t.stat == TStat::Working && t.kind == kind && t.file == file && t.first == first)
        {
            Some(i) => i,
            None => {
                g.problem.get_or_insert(format!("send of unknown task {kind} {file} {first}"));
                return None;
            }
        };
        g.tasks[id].stat = TStat::AtSend;
        g.tasks[id].result = result.to_string();
        g.tasks[id].deps = deps.to_vec();
        c.push(&mut g, json!({"e": "end", "k": kind, "f": file, "first": first, "r": result, "deps": deps, "t": id}));
        c.cv.notify_all();
        if c.mode == Mode::Controlled {
            while !g.tasks[id].send_ok && !g.drain {
                g = c.cv.wait(g).unwrap();
            }
        }
        // serialise the sends so that the order of `sent` events is the channel order
        while g.send_busy {
            g = c.cv.wait(g).unwrap();
        }
        g.send_busy = true;
        g.tasks[id].stat = TStat::Sending;
        // logged while holding the send lock and before the send itself: the order of `sent` events is the channel order
        // and no `recv` of this message can be logged earlier
        let ev = json!({"e": "sent", "k": kind, "f": file, "first": first, "r": result, "t": id});
        c.push(&mut g, ev);
        drop(g);
        unregister_thread();
        Some(Box::new(SendGuard { ctl: c.clone(), id }))
    }

    fn on_poll(&self, done: usize, total: usize, dep_stats: (usize, usize, usize)) {
        let c = &self.0;
        let mut g = c.inner.lock().unwrap();
        g.done = done;
        g.total = total;
        g.dep_stats = dep_stats;
        g.coord = Coord::AtPoll;
        g.poll_ok = false;
        c.cv.notify_all();
        match c.mode {
            Mode::Controlled => {
                while !g.poll_ok && !g.drain {
                    g = c.cv.wait(g).unwrap();
                }
            }
            Mode::Ungated => {}
            Mode::Free => {
                // wait until a result is in the channel or nothing is outstanding
                let deadline = Instant::now() + Duration::from_secs(20);
                loop {
                    let (q, a, _, _) = Ctl::counts(&g);
                    if g.sent > g.recvd || (q == 0 && a == 0) || g.drain {
                        break;
                    }
                    let now = Instant::now();
                    if now >= deadline {
                        g.problem.get_or_insert("free-running wait timed out".into());
                        break;
                    }
                    let (g2, _) = c.cv.wait_timeout(g, deadline - now).unwrap();
                    g = g2;
                }
                let (q, a, _, _) = Ctl::counts(&g);
                if q == 0 && a == 0 && g.sent == g.recvd && !g.drain {
                    // nothing can arrive any more: the coordinator must leave its loop now; let it try (an empty
                    // poll sleeps 100 ms), and call it a hang when it keeps coming back
                    g.idle_polls += 1;
                    if g.idle_polls > 3 {
                        g.problem.get_or_insert(format!("hang: nothing outstanding but the coordinator keeps polling (done={done} total={total})"));
                        c.push(&mut g, json!({"e": "hang", "done": done, "total": total}));
                        c.cv.notify_all();
                        // park here for good: the run is abandoned by the driver
                        loop {
                            g = c.cv.wait(g).unwrap();
                        }
                    }
                } else {
                    g.idle_polls = 0;
                }
            }
        }
        g.coord = Coord::Running;
        c.push(&mut g, json!({"e": "poll", "done": done, "total": total,
                              "edges": dep_stats.0, "counts": dep_stats.1, "fin": dep_stats.2}));
    }

    fn on_recv(&self, kind: &str, file: &str, result: &str, done: usize, total: usize) {
        let c = &self.0;
        let mut g = c.inner.lock().unwrap();
        g.recvd += 1;
        g.done = done;
        c.push(&mut g, json!({"e": "recv", "k": kind, "f": file, "r": result, "done": done, "total": total}));
    }

    fn on_finish(&self, ok: bool) {
        let c = &self.0;
        let mut g = c.inner.lock().unwrap();
        g.finished = Some(ok);
        g.coord = Coord::Finished;
        g.drain = true;
        c.push(&mut g, json!({"e": "finish", "ok": ok}));
        c.cv.notify_all();
    }

    fn on_run(&self, file: &str, command: &str, work_dir: &str) {
        let c = &self.0;
        let tid = std::thread::current().id();
        let mut g = c.inner.lock().unwrap();
        if c.mode == Mode::Controlled && c.gate_runs && !g.drain {
            if let Some(id) = g.tasks.iter().position(|t| t.thread == Some(tid) && t.stat == TStat::Working) {
                g.tasks[id].stat = TStat::AtRun;
                g.tasks[id].run_ok = false;
                c.cv.notify_all();
                while !g.tasks[id].run_ok && !g.drain {
                    g = c.cv.wait(g).unwrap();
                }
                g.tasks[id].stat = TStat::Working;
            }
        }
        c.push(&mut g, json!({"e": "run", "f": file, "cmd": command, "cwd": work_dir}));
    }

    fn on_pp_exec(&self, file: &str, directive: &str, args: &[String]) {
        let c = &self.0;
        let mut g = c.inner.lock().unwrap();
        if g.log_pp {
            c.push(&mut g, json!({"e": "ppexec", "f": file, "d": directive, "args": args}));
        }
    }

    fn on_pp_step(&self, file: &str, s: &PpStep) {
        let c = &self.0;
        let mut g = c.inner.lock().unwrap();
        if g.log_pp {
            c.push(
                &mut g,
                json!({"e": "ppstep", "f": file, "line": s.line, "input": s.input, "wrote": s.wrote,
                       "addnl": s.add_nl, "indir": s.in_directive, "tail": s.has_tail,
                       "mode": s.pp_mode, "tags": s.has_tags}),
            );
        }
    }
}
