mod cases;
mod ctl;
mod pure;
mod sched;

use serde_json::{json, Value};
use std::collections::{BTreeMap, HashSet};
use std::io::Write;
use std::path::{Path, PathBuf};
use std::sync::atomic::{AtomicUsize, Ordering};
use std::sync::{Arc, Mutex};

pub fn scratch_root() -> PathBuf {
    let base = std::env::var("VH_TMP").ok().map(PathBuf::from).unwrap_or_else(|| {
        if Path::new("/dev/shm").is_dir() {
            PathBuf::from("/dev/shm")
        } else {
            std::env::temp_dir()
        }
    });
    let p = base.join(format!("vh-{}", std::process::id()));
    std::fs::create_dir_all(&p).unwrap();
    p
}

/// runs that hung or panicked are abandoned with their threads parked; after this many the process stops exploring
/// (every one of them is a violation already) instead of exhausting memory
pub static ABANDONED: AtomicUsize = AtomicUsize::new(0);
pub const MAX_ABANDONED: usize = 40;

fn arg<'a>(args: &'a [String], name: &str) -> Option<&'a str> {
    args.iter().position(|a| a == name).and_then(|i| args.get(i + 1)).map(|s| s.as_str())
}
fn arg_usize(args: &[String], name: &str, default: usize) -> usize {
    arg(args, name).map(|s| s.parse().unwrap()).unwrap_or(default)
}

fn hash_str(s: &str) -> u64 {
    // FNV-1a
    let mut h: u64 = 0xcbf29ce484222325;
    for b in s.bytes() {
        h ^= b as u64;
        h = h.wrapping_mul(0x100000001b3);
    }
    h
}

/// `vh sched --scenarios FILE --out DIR [--jobs J] [--max-per-scenario M] [--seed S] [--policy dfs|random]`
/// FILE: ndjson, one scenario per line (see Scenario::from_json), optional "wishes" for guided replay.
fn cmd_sched(args: &[String]) -> i32 {
    let scen_file = arg(args, "--scenarios").expect("--scenarios");
    let out_dir = PathBuf::from(arg(args, "--out").expect("--out"));
    let jobs = arg_usize(args, "--jobs", 12);
    let max_per = arg_usize(args, "--max-per-scenario", usize::MAX);
    let seed = arg_usize(args, "--seed", 1) as u64;
    let keep_traces = arg(args, "--traces").unwrap_or("distinct") != "none";
    std::fs::create_dir_all(&out_dir).unwrap();
    let text = std::fs::read_to_string(scen_file).unwrap();
    let scenarios: Vec<Value> = text.lines().filter(|l| !l.trim().is_empty()).map(|l| serde_json::from_str(l).unwrap()).collect();
    let scenarios = Arc::new(scenarios);
    let next = Arc::new(AtomicUsize::new(0));
    let root = scratch_root();
    let summary = Arc::new(Mutex::new(BTreeMap::<String, u64>::new()));
    let violations = Arc::new(Mutex::new(Vec::<Value>::new()));
    let seen_traces = Arc::new(Mutex::new(HashSet::<u64>::new()));
    let replays = Arc::new(Mutex::new(Vec::<Value>::new()));
    ctl::install_panic_hook();
    let mut handles = vec![];
    for j in 0..jobs {
        let scenarios = scenarios.clone();
        let next = next.clone();
        let root = root.clone();
        let summary = summary.clone();
        let violations = violations.clone();
        let seen_traces = seen_traces.clone();
        let replays = replays.clone();
        let out_dir = out_dir.clone();
        handles.push(std::thread::spawn(move || {
            let mut tf = std::io::BufWriter::new(std::fs::File::create(out_dir.join(format!("traces-{j}.ndjson"))).unwrap());
            let mut local: BTreeMap<String, u64> = BTreeMap::new();
            let mut runs = 0usize;
            loop {
                let i = next.fetch_add(1, Ordering::SeqCst);
                if i >= scenarios.len() || ABANDONED.load(Ordering::SeqCst) > MAX_ABANDONED {
                    break;
                }
                let sv = &scenarios[i];
                let sc = sched::Scenario::from_json(sv);
                let policy = sv.get("policy").and_then(|x| x.as_str()).unwrap_or("dfs").to_string();
                let mut prefix: Vec<usize> = sv.get("prefix").and_then(|x| x.as_array()).map(|a| a.iter().map(|x| x.as_u64().unwrap_or(0) as usize).collect()).unwrap_or_default();
                let mut count = 0usize;
                loop {
                    let dir = root.join(format!("s{i}-{j}-{runs}"));
                    runs += 1;
                    let base = sc.materialise(&dir);
                    let cfg = sc.config(&base);
                    let out = match policy.as_str() {
                        "random" => sched::run_controlled(cfg, sc.n, sched::Policy::Random(&[], seed ^ hash_str(&format!("{i}-{count}")))),
                        "free" => sched::run_free(cfg, sc.n, Some(seed ^ hash_str(&format!("{i}-{count}"))), false),
                        "probe" => {
                            let h = seed ^ hash_str(&format!("{i}-{count}"));
                            sched::run_controlled(cfg, sc.n, sched::Policy::Probe(h, (h >> 20) as usize % 14))
                        }
                        "ungated" => sched::run_ungated(cfg, sc.n),
                        "cmdgates" => sched::run_controlled_opts(cfg, sc.n, sched::Policy::Random(&[], seed ^ hash_str(&format!("{i}-{count}"))), true),
                        "guided" => {
                            // wishes: [action, kind, spec id, first]; ids are translated to the names txtpp prints
                            let wishes: Vec<(String, String, String, bool)> = sv["wishes"].as_array().map(|a| a.iter().map(|w| {
                                let act = w[0].as_str().unwrap().to_string();
                                if act == "poll" {
                                    return (act, String::new(), String::new(), true);
                                }
                                let kind = w[1].as_str().unwrap().to_string();
                                let id = w[2].as_u64().unwrap() as usize;
                                let name = if kind == "dir" { sc.dir_name(id).to_string() } else { sc.src(id) };
                                (act, kind, name, w[3].as_bool().unwrap())
                            }).collect()).unwrap_or_default();
                            sched::run_controlled(cfg, sc.n, sched::Policy::Guided(&wishes))
                        }
                        _ => sched::run_controlled(cfg, sc.n, sched::Policy::Prefix(&prefix)),
                    };
                    count += 1;
                    *local.entry("runs".into()).or_insert(0) += 1;
                    *local.entry(format!("verdict_{}", out.verdict)).or_insert(0) += 1;
                    *local.entry("events".into()).or_insert(0) += out.events.len() as u64;
                    let problems = sched::judge(&sc, &base, &out.verdict);
                    let abandoned = matches!(out.verdict.as_str(), "hang" | "stuck" | "panic");
                    if policy == "guided" {
                        let marks = std::fs::read_to_string(dir.join("markers.log")).unwrap_or_default();
                        let mut outs = serde_json::Map::new();
                        let mut memo = BTreeMap::new();
                        for f in 1..=sc.nf {
                            let got = std::fs::read(base.join(sc.out(f))).ok();
                            let fresh = !sc.reaches_cycle(f) && got.as_deref() == Some(sc.expected(f, &mut memo).as_bytes());
                            outs.insert(f.to_string(), json!(fresh));
                        }
                        replays.lock().unwrap().push(json!({"index": i, "verdict": out.verdict, "events": out.events, "markers": marks, "fresh": outs,
                                                           "choices": out.choices.len()}));
                    }
                    if !problems.is_empty() {
                        let mut v = violations.lock().unwrap();
                        if v.len() < 200 {
                            v.push(json!({
                                "scenario": sc.to_json(), "index": i,
                                "schedule": out.choices.iter().map(|c| c.0).collect::<Vec<_>>(),
                                "policy": policy, "verdict": out.verdict, "detail": out.detail,
                                "problems": problems.iter().map(|(p, m)| json!({"property": p, "message": m})).collect::<Vec<_>>(),
                                "events": out.events.iter().take(300).cloned().collect::<Vec<_>>(),
                            }));
                        }
                        for (p, _) in &problems {
                            *local.entry(format!("violations_{p}")).or_insert(0) += 1;
                        }
                    }
                    if keep_traces {
                        let tr = sched::trace_for_tlc(&sc, &out.events);
                        let mut s = String::new();
                        for e in &tr {
                            s.push_str(&serde_json::to_string(e).unwrap());
                            s.push('\n');
                        }
                        let h = hash_str(&s);
                        if seen_traces.lock().unwrap().insert(h) {
                            *local.entry("distinct_traces".into()).or_insert(0) += 1;
                            tf.write_all(s.as_bytes()).unwrap();
                        }
                    }
                    if !abandoned {
                        let _ = std::fs::remove_dir_all(&dir);
                    } else if ABANDONED.fetch_add(1, Ordering::SeqCst) >= MAX_ABANDONED {
                        *local.entry("stopped_after_too_many_hangs".into()).or_insert(0) += 1;
                        break;
                    }
                    if policy == "prefix" {
                        break;
                    }
                    if policy == "dfs" {
                        match sched::next_prefix(&out.choices) {
                            Some(p) if count < max_per => prefix = p,
                            Some(_) => {
                                *local.entry("truncated_scenarios".into()).or_insert(0) += 1;
                                break;
                            }
                            None => {
                                *local.entry("exhausted_scenarios".into()).or_insert(0) += 1;
                                break;
                            }
                        }
                    } else {
                        let reps = sv.get("reps").and_then(|x| x.as_u64()).unwrap_or(1) as usize;
                        if count >= reps {
                            break;
                        }
                    }
                }
            }
            tf.flush().unwrap();
            let mut s = summary.lock().unwrap();
            for (k, v) in local {
                *s.entry(k).or_insert(0) += v;
            }
        }));
    }
    for h in handles {
        h.join().unwrap();
    }
    let s = summary.lock().unwrap();
    let v = violations.lock().unwrap();
    let res = json!({"summary": *s, "violations": *v, "scenarios": scenarios.len(), "replays": *replays.lock().unwrap()});
    std::fs::write(out_dir.join("result.json"), serde_json::to_string(&res).unwrap()).unwrap();
    println!("{}", serde_json::to_string(&json!({"summary": *s, "violations": v.len()})).unwrap());
    let _ = std::fs::remove_dir_all(&root);
    // runs that hung were abandoned with their threads parked: leave without joining them
    std::io::stdout().flush().unwrap();
    unsafe { libc::_exit(0) }
}

fn main() {
    let args: Vec<String> = std::env::args().collect();
    let code = match args.get(1).map(|s| s.as_str()) {
        Some("sched") => cmd_sched(&args[2..]),
        Some("pure") => pure::cmd_pure(&args[2..]),
        Some("cases") => cases::cmd_cases(&args[2..]),
        Some("runstep") => cases::cmd_runstep(&args[2..]),
        _ => {
            eprintln!("usage: vh <sched|...> ...");
            2
        }
    };
    std::process::exit(code);
}
