//! In-process drivers for the pure pieces of txtpp re-exported by the `verif` feature:
//! directive detection / continuation (C15) and the tag store (C14).
use serde_json::{json, Value};
use std::io::{BufRead, Write};
use txtpp::verif::internals::{Directive, GetLineEnding, ReplaceLineEnding, TagState, TxtppPath};

fn dir_json(d: &Option<Directive>) -> Value {
    match d {
        None => json!({"dir": false}),
        Some(d) => json!({"dir": true, "ws": d.whitespaces, "pfx": d.prefix,
                          "type": d.directive_type.to_string(), "args": d.args}),
    }
}

fn one(req: &Value) -> Value {
    match req["op"].as_str().unwrap_or("") {
        "detect" => dir_json(&Directive::detect_from(req["line"].as_str().unwrap())),
        "addline" => {
            let dline = req["dline"].as_str().unwrap();
            let mut rows = vec![];
            for c in req["cands"].as_array().unwrap() {
                let mut d = match Directive::detect_from(dline) {
                    Some(d) => d,
                    None => return json!({"error": "dline is not a directive"}),
                };
                let n = d.args.len();
                match d.add_line(c.as_str().unwrap()) {
                    Ok(()) => rows.push(json!({"ok": true, "arg": d.args.last().unwrap(), "grew": d.args.len() == n + 1})),
                    Err(()) => rows.push(json!({"ok": false, "grew": d.args.len() != n})),
                }
            }
            json!({"rows": rows})
        }
        "tags" => {
            let mut t = TagState::new();
            let mut out = vec![];
            for s in req["steps"].as_array().unwrap() {
                match s[0].as_str().unwrap() {
                    "create" => out.push(json!(t.create(s[1].as_str().unwrap()).is_ok())),
                    "store" => out.push(json!(t.try_store(s[1].as_str().unwrap()).is_ok())),
                    "inject" => out.push(json!(t.inject_tags(s[1].as_str().unwrap(), s[2].as_str().unwrap()))),
                    "has" => out.push(json!(t.has_tags())),
                    _ => out.push(json!(null)),
                }
            }
            json!({"out": out})
        }
        "le" => {
            // the line ending txtpp derives from a file with these bytes
            let dir = std::env::temp_dir().join(format!("vh-le-{}", std::process::id()));
            let _ = std::fs::create_dir_all(&dir);
            let p = dir.join("probe.txtpp");
            std::fs::write(&p, req["bytes"].as_str().unwrap().as_bytes()).unwrap();
            let r = p.get_line_ending();
            json!({"le": r.ok()})
        }
        "relend" => json!(req["text"].as_str().unwrap().replace_line_ending(req["le"].as_str().unwrap(), req["force"].as_bool().unwrap_or(false))),
        "pathname" => {
            let p = std::path::PathBuf::from(req["path"].as_str().unwrap());
            json!({"is_txtpp": p.is_txtpp_file(),
                   "out": p.remove_txtpp().ok().map(|x| x.display().to_string())})
        }
        _ => json!({"error": "unknown op"}),
    }
}

/// `vh pure IN OUT`: one JSON request per line in, one JSON answer per line out.
/// A panic inside the code under test is data: it is reported as {"panic": ...}.
pub fn cmd_pure(args: &[String]) -> i32 {
    let inp = std::io::BufReader::new(std::fs::File::open(&args[0]).unwrap());
    let mut out = std::io::BufWriter::new(std::fs::File::create(&args[1]).unwrap());
    std::panic::set_hook(Box::new(|_| {}));
    for line in inp.lines() {
        let line = line.unwrap();
        if line.trim().is_empty() {
            continue;
        }
        let req: Value = serde_json::from_str(&line).unwrap();
        let res = match std::panic::catch_unwind(|| one(&req)) {
            Ok(v) => v,
            Err(e) => {
                let msg = e.downcast_ref::<String>().cloned().or_else(|| e.downcast_ref::<&str>().map(|s| s.to_string())).unwrap_or_default();
                json!({"panic": msg})
            }
        };
        writeln!(out, "{}", serde_json::to_string(&res).unwrap()).unwrap();
    }
    out.flush().unwrap();
    0
}
