//! Generic project runner: materialise a tree, apply a sequence of steps (txtpp runs through the
//! library or the CLI binary, edits, deletions), and report what every run did: verdict, the
//! whole tree (bytes, inode, mtime), the commands executed, optionally the hook events.
use crate::ctl;
use crate::sched;
use serde_json::{json, Map, Value};
use std::io::{BufRead, Write};
use std::os::unix::fs::MetadataExt;
use std::path::{Path, PathBuf};
use std::sync::atomic::{AtomicUsize, Ordering};
use std::sync::{Arc, Mutex};
use txtpp::{Config, Mode, Verbosity};

fn b64(data: &[u8]) -> String {
    const T: &[u8; 64] = b"ABCDEFGHIJKLMNOPQRSTUVWXYZabcdefghijklmnopqrstuvwxyz0123456789+/";
    let mut s = String::new();
    for c in data.chunks(3) {
        let n = (c[0] as u32) << 16 | (*c.get(1).unwrap_or(&0) as u32) << 8 | *c.get(2).unwrap_or(&0) as u32;
        s.push(T[(n >> 18) as usize & 63] as char);
        s.push(T[(n >> 12) as usize & 63] as char);
        s.push(if c.len() > 1 { T[(n >> 6) as usize & 63] as char } else { '=' });
        s.push(if c.len() > 2 { T[n as usize & 63] as char } else { '=' });
    }
    s
}
fn unb64(s: &str) -> Vec<u8> {
    let mut out = vec![];
    let mut buf = 0u32;
    let mut bits = 0;
    for ch in s.bytes() {
        let v = match ch {
            b'A'..=b'Z' => ch - b'A',
            b'a'..=b'z' => ch - b'a' + 26,
            b'0'..=b'9' => ch - b'0' + 52,
            b'+' => 62,
            b'/' => 63,
            _ => continue,
        } as u32;
        buf = buf << 6 | v;
        bits += 6;
        if bits >= 8 {
            bits -= 8;
            out.push((buf >> bits) as u8);
            buf &= (1 << bits) - 1;
        }
    }
    out
}

fn content_of(v: &Value) -> Vec<u8> {
    if let Some(t) = v.get("text").and_then(|x| x.as_str()) {
        t.as_bytes().to_vec()
    } else if let Some(b) = v.get("b64").and_then(|x| x.as_str()) {
        unb64(b)
    } else {
        vec![]
    }
}

const SENTINEL: i64 = 1_000_000_000; // 2001-09-09

fn write_file(root: &Path, f: &Value) -> Vec<u8> {
    let p = root.join(f["path"].as_str().unwrap());
    if f.get("dir").and_then(|x| x.as_bool()).unwrap_or(false) {
        // an (empty) directory of the project
        std::fs::create_dir_all(&p).unwrap();
        return vec![];
    }
    if let Some(d) = p.parent() {
        std::fs::create_dir_all(d).unwrap();
    }
    if let Some(t) = f.get("symlink").and_then(|x| x.as_str()) {
        let _ = std::fs::remove_file(&p);
        std::os::unix::fs::symlink(t, &p).unwrap();
        return vec![];
    }
    let mut data = content_of(f);
    if f.get("subst").and_then(|x| x.as_bool()).unwrap_or(false) {
        data = String::from_utf8_lossy(&data).replace("{root}", &root.display().to_string()).into_bytes();
    }
    std::fs::write(&p, &data).unwrap();
    if let Some(m) = f.get("mode").and_then(|x| x.as_u64()) {
        use std::os::unix::fs::PermissionsExt;
        std::fs::set_permissions(&p, std::fs::Permissions::from_mode(m as u32)).unwrap();
    }
    data
}

fn set_newer(root: &Path, newer: &[String]) {
    // generated files are normally younger than their sources: give them a later (still fixed) time
    for p in newer {
        let t = filetime::FileTime::from_unix_time(SENTINEL + 86400 * 400, 0);
        let _ = filetime::set_file_times(root.join(p), t, t);
    }
}

fn set_sentinel(dir: &Path) {
    if let Ok(rd) = std::fs::read_dir(dir) {
        for e in rd.flatten() {
            let p = e.path();
            let md = match std::fs::symlink_metadata(&p) {
                Ok(m) => m,
                Err(_) => continue,
            };
            if md.file_type().is_symlink() {
                continue;
            }
            if md.is_dir() {
                set_sentinel(&p);
            }
            let t = filetime::FileTime::from_unix_time(SENTINEL, 0);
            let _ = filetime::set_file_times(&p, t, t);
        }
    }
}

fn snapshot(dir: &Path, rel: &str, out: &mut Map<String, Value>) {
    let mut entries: Vec<_> = match std::fs::read_dir(dir) {
        Ok(rd) => rd.flatten().collect(),
        Err(_) => return,
    };
    entries.sort_by_key(|e| e.file_name());
    for e in entries {
        let p = e.path();
        let name = if rel.is_empty() {
            e.file_name().to_string_lossy().to_string()
        } else {
            format!("{rel}/{}", e.file_name().to_string_lossy())
        };
        let md = match std::fs::symlink_metadata(&p) {
            Ok(m) => m,
            Err(_) => continue,
        };
        if md.file_type().is_symlink() {
            out.insert(name, json!({"symlink": std::fs::read_link(&p).map(|t| t.display().to_string()).unwrap_or_default()}));
        } else if md.is_dir() {
            out.insert(name.clone(), json!({"dir": true, "mtime": md.mtime() * 1_000_000_000 + md.mtime_nsec()}));
            snapshot(&p, &name, out);
        } else {
            let data = std::fs::read(&p).unwrap_or_default();
            let mut v = Map::new();
            match String::from_utf8(data.clone()) {
                Ok(s) => v.insert("text".into(), json!(s)),
                Err(_) => v.insert("b64".into(), json!(b64(&data))),
            };
            v.insert("ino".into(), json!(md.ino()));
            v.insert("mtime".into(), json!(md.mtime() * 1_000_000_000 + md.mtime_nsec()));
            v.insert("size".into(), json!(md.len()));
            out.insert(name, Value::Object(v));
        }
    }
}

fn mode_of(s: &str) -> Mode {
    match s {
        "needed" => Mode::InMemoryBuild,
        "verify" => Mode::Verify,
        "clean" => Mode::Clean,
        _ => Mode::Build,
    }
}

/// run one library step in a child process (so that it can be crashed at a chosen hook event)
fn run_isolated(root: &Path, r: &Value) -> Value {
    let exe = std::env::current_exe().unwrap();
    let mut r2 = r.clone();
    r2.as_object_mut().unwrap().remove("isolate");
    let spec = json!({"root": root.display().to_string(), "run": r2});
    let out = std::process::Command::new(exe)
        .arg("runstep")
        .arg(serde_json::to_string(&spec).unwrap())
        .env_remove("TXTPP_FILE")
        .stdin(std::process::Stdio::null())
        .output();
    match out {
        Err(e) => json!({"verdict": "toolerror", "detail": format!("{e}")}),
        Ok(o) => {
            use std::os::unix::process::ExitStatusExt;
            if o.status.code() == Some(137) || o.status.signal() == Some(9) {
                return json!({"verdict": "crashed"});
            }
            match serde_json::from_slice::<Value>(&o.stdout) {
                Ok(v) => v,
                Err(_) => json!({"verdict": "toolerror", "detail": format!("child exit {:?}: {}", o.status.code(), String::from_utf8_lossy(&o.stderr))}),
            }
        }
    }
}

pub fn cmd_runstep(args: &[String]) -> i32 {
    let spec: Value = serde_json::from_str(&args[0]).unwrap();
    ctl::install_panic_hook();
    let root = Path::new(spec["root"].as_str().unwrap());
    if let Some(d) = spec["run"].get("chdir").and_then(|x| x.as_str()) {
        std::env::set_current_dir(root.join(d)).unwrap();
    }
    let v = run_lib(root, &spec["run"]);
    println!("{}", serde_json::to_string(&v).unwrap());
    std::io::stdout().flush().unwrap();
    unsafe { libc::_exit(0) }
}

fn run_lib(root: &Path, r: &Value) -> Value {
    if r.get("isolate").and_then(|x| x.as_bool()).unwrap_or(false) {
        return run_isolated(root, r);
    }
    let base = match r.get("base_raw").and_then(|x| x.as_str()) {
        Some(b) => PathBuf::from(b),
        None => root.join(r.get("base").and_then(|x| x.as_str()).unwrap_or(".")),
    };
    let n = r.get("threads").and_then(|x| x.as_u64()).unwrap_or(2) as usize;
    let cfg = Config {
        base_dir: base,
        shell_cmd: r.get("shell").and_then(|x| x.as_str()).unwrap_or("").replace("{root}", &root.display().to_string()),
        inputs: r["inputs"].as_array().map(|a| a.iter().map(|x| x.as_str().unwrap().replace("{root}", &root.display().to_string())).collect()).unwrap_or_else(|| vec![".".into()]),
        recursive: r.get("recursive").and_then(|x| x.as_bool()).unwrap_or(false),
        num_threads: n,
        mode: mode_of(r.get("mode").and_then(|x| x.as_str()).unwrap_or("build")),
        verbosity: Verbosity::Quiet,
        trailing_newline: r.get("trailing").and_then(|x| x.as_bool()).unwrap_or(true),
    };
    let log_pp = r.get("log_pp").and_then(|x| x.as_bool()).unwrap_or(false);
    let jitter = r.get("jitter").and_then(|x| x.as_u64());
    let want_events = r.get("events").and_then(|x| x.as_bool()).unwrap_or(false) || log_pp;
    let crash_at = r.get("crash_at").and_then(|x| x.as_u64()).map(|x| x as usize);
    let out = sched::run_free_opts(cfg, n.max(1), jitter, log_pp, crash_at);
    let runs: Vec<Value> = out.events.iter().filter(|e| e["e"] == "run").cloned().collect();
    let mut v = json!({"verdict": out.verdict, "detail": out.detail, "runs": runs});
    if want_events {
        v["events"] = Value::Array(out.events);
    }
    v
}

fn run_cli(root: &Path, r: &Value, cli: &str) -> Value {
    let cwd = root.join(r.get("cwd").and_then(|x| x.as_str()).or_else(|| r.get("base").and_then(|x| x.as_str())).unwrap_or("."));
    let mut cmd = std::process::Command::new(cli);
    cmd.current_dir(&cwd);
    cmd.env_remove("TXTPP_FILE");
    cmd.env_remove("RUST_LOG");
    if let Some(envs) = r.get("env").and_then(|x| x.as_object()) {
        for (k, v) in envs {
            cmd.env(k, v.as_str().unwrap_or(""));
        }
    }
    let args: Vec<String> = r["args"].as_array().map(|a| a.iter().map(|x| x.as_str().unwrap().replace("{root}", &root.display().to_string())).collect()).unwrap_or_default();
    // optional RLIMIT_FSIZE through a sh wrapper (SIGXFSZ ignored so that write fails with EFBIG)
    let mut child = if let Some(lim) = r.get("fsize_blocks").and_then(|x| x.as_u64()) {
        let mut sh = std::process::Command::new("sh");
        sh.current_dir(&cwd);
        sh.env_remove("TXTPP_FILE");
        let mut line = format!("trap '' XFSZ; ulimit -f {lim}; exec '{cli}'");
        for a in &args {
            line.push_str(&format!(" '{}'", a.replace('\'', "'\\''")));
        }
        sh.arg("-c").arg(line);
        sh
    } else {
        cmd.args(&args);
        cmd
    };
    child.stdin(std::process::Stdio::null()).stdout(std::process::Stdio::piped()).stderr(std::process::Stdio::piped());
    let timeout = r.get("timeout_ms").and_then(|x| x.as_u64()).unwrap_or(20000);
    let start = std::time::Instant::now();
    let mut ch = match child.spawn() {
        Ok(c) => c,
        Err(e) => return json!({"verdict": "toolerror", "detail": format!("spawn: {e}")}),
    };
    // drain the pipes on threads so that a chatty child cannot block
    let mut so = ch.stdout.take().unwrap();
    let mut se = ch.stderr.take().unwrap();
    let t1 = std::thread::spawn(move || {
        let mut b = vec![];
        let _ = std::io::Read::read_to_end(&mut so, &mut b);
        b
    });
    let t2 = std::thread::spawn(move || {
        let mut b = vec![];
        let _ = std::io::Read::read_to_end(&mut se, &mut b);
        b
    });
    if let Some(us) = r.get("kill_after_us").and_then(|x| x.as_u64()) {
        std::thread::sleep(std::time::Duration::from_micros(us));
        let _ = ch.kill();
    }
    let status = loop {
        match ch.try_wait() {
            Ok(Some(s)) => break Some(s),
            Ok(None) => {
                if start.elapsed().as_millis() as u64 > timeout {
                    let _ = ch.kill();
                    let _ = ch.wait();
                    break None;
                }
                std::thread::sleep(std::time::Duration::from_millis(5));
            }
            Err(_) => break None,
        }
    };
    let _out = t1.join().unwrap_or_default();
    let err = t2.join().unwrap_or_default();
    let err_s = String::from_utf8_lossy(&err);
    let tail: String = err_s.chars().rev().take(600).collect::<String>().chars().rev().collect();
    match status {
        None => json!({"verdict": "hang", "detail": format!("no exit within {timeout} ms"), "stderr": tail}),
        Some(s) => {
            use std::os::unix::process::ExitStatusExt;
            let code = s.code();
            if s.signal() == Some(9) && r.get("kill_after_us").is_some() {
                return json!({"verdict": "crashed"});
            }
            let verdict = match code {
                Some(0) => "ok",
                Some(101) => "panic",
                Some(_) => "err",
                None => "panic", // killed by a signal (abort)
            };
            let verdict = if err_s.contains("panicked at") { "panic" } else { verdict };
            json!({"verdict": verdict, "exit": code, "signal": s.signal(), "stderr": tail,
                   "stdout_len": _out.len(), "stderr_len": err.len(), "verbose_marker": err_s.contains("Using")})
        }
    }
}

fn run_case(case: &Value, root: &Path, cli: &str, templates: &Value) -> Value {
    std::fs::create_dir_all(root).unwrap();
    let mut initial: std::collections::HashMap<String, Vec<u8>> = std::collections::HashMap::new();
    if let Some(t) = case.get("template").and_then(|x| x.as_str()) {
        for f in templates[t].as_array().unwrap_or(&vec![]) {
            let d = write_file(root, f);
            if f.get("dir").is_none() {
                initial.insert(f["path"].as_str().unwrap().to_string(), d);
            }
        }
    }
    let changed_only = case.get("report").and_then(|x| x.as_str()) == Some("changed");
    for d in case.get("dirs").and_then(|x| x.as_array()).unwrap_or(&vec![]) {
        std::fs::create_dir_all(root.join(d.as_str().unwrap())).unwrap();
    }
    for f in case.get("files").and_then(|x| x.as_array()).unwrap_or(&vec![]) {
        let d = write_file(root, f);
        if f.get("dir").is_none() {
            initial.insert(f["path"].as_str().unwrap().to_string(), d);
        }
    }
    // the directories of the materialised project: a run that removes one of them is reported
    let mut initial_dirs: Vec<String> = vec![];
    {
        let mut t = Map::new();
        snapshot(root, "", &mut t);
        for (k, v) in &t {
            if v.get("dir").is_some() {
                initial_dirs.push(k.clone());
            }
        }
    }
    let sentinel = case.get("sentinel").and_then(|x| x.as_bool()).unwrap_or(false);
    let newer: Vec<String> = case.get("newer").and_then(|x| x.as_array()).map(|a| a.iter().filter_map(|x| x.as_str().map(|s| s.to_string())).collect()).unwrap_or_default();
    let mut steps_out = vec![];
    for st in case["steps"].as_array().unwrap() {
        if let Some(w) = st.get("write") {
            let _ = write_file(root, w);
            steps_out.push(json!({}));
        } else if let Some(t) = st.get("tamper") {
            // single-point tampering of an existing file; reports whether the bytes changed
            let p = root.join(t["path"].as_str().unwrap());
            let how = t["how"].as_str().unwrap_or("none");
            let old = std::fs::read(&p).unwrap_or_default();
            let mut new = old.clone();
            let n = new.len();
            match how {
                "append1" => new.push(b'x'),
                "append-many" => new.extend_from_slice(&vec![b'y'; 9000]),
                "drop-last" => { new.pop(); }
                "flip-first" => { if n > 0 { new[0] ^= 1; } }
                "flip-mid" => { if n > 0 { new[n / 2] ^= 1; } }
                "flip-last" => { if n > 0 { new[n - 1] ^= 1; } }
                "insert-mid" => new.insert(n / 2, b'Q'),
                _ => {}
            }
            let mut changed = new != old;
            if how == "delete" {
                let _ = std::fs::remove_file(&p);
                changed = true;
            } else if changed {
                std::fs::write(&p, &new).unwrap();
            }
            steps_out.push(json!({"changed": changed}));
        } else if let Some(d) = st.get("delete") {
            let p = root.join(d.as_str().unwrap());
            let _ = std::fs::remove_file(&p);
            steps_out.push(json!({}));
        } else if let Some(r) = st.get("run") {
            if sentinel {
                set_sentinel(root);
                set_newer(root, &newer);
            }
            let mut res = if r.get("via").and_then(|x| x.as_str()) == Some("cli") { run_cli(root, r, cli) } else { run_lib(root, r) };
            let mut tree = Map::new();
            snapshot(root, "", &mut tree);
            if changed_only {
                // report only what the run created or changed (and note what it deleted)
                let keys: Vec<String> = tree.keys().cloned().collect();
                for k in keys {
                    let same = match initial.get(&k) {
                        Some(c) => tree[&k].get("text").and_then(|t| t.as_str()).map(|t| t.as_bytes() == &c[..]).unwrap_or(false),
                        None => tree[&k].get("dir").is_some(),
                    };
                    if same {
                        tree.remove(&k);
                    }
                }
                for k in initial.keys() {
                    if !root.join(k).exists() && !tree.contains_key(k) {
                        tree.insert(k.clone(), json!({"deleted": true}));
                    }
                }
                for k in &initial_dirs {
                    if !root.join(k).exists() {
                        tree.insert(k.clone(), json!({"deleted": true, "was_dir": true}));
                    }
                }
            }
            res["tree"] = Value::Object(tree);
            steps_out.push(res);
        } else if st.get("snapshot").is_some() {
            if sentinel {
                set_sentinel(root);
                set_newer(root, &newer);
            }
            let mut tree = Map::new();
            snapshot(root, "", &mut tree);
            steps_out.push(json!({"tree": tree}));
        }
    }
    json!({"id": case["id"], "steps": steps_out})
}

/// `vh cases IN OUT [--jobs J] [--cli PATH]`
pub fn cmd_cases(args: &[String]) -> i32 {
    let inp = std::io::BufReader::new(std::fs::File::open(&args[0]).unwrap());
    let jobs = args.iter().position(|a| a == "--jobs").map(|i| args[i + 1].parse().unwrap()).unwrap_or(14usize);
    let cli = args.iter().position(|a| a == "--cli").map(|i| args[i + 1].clone()).unwrap_or_default();
    let mut cases: Vec<Value> = inp.lines().map(|l| l.unwrap()).filter(|l| !l.trim().is_empty()).map(|l| serde_json::from_str(&l).unwrap()).collect();
    let templates = if cases.first().map(|c| c.get("templates").is_some()).unwrap_or(false) {
        cases.remove(0)["templates"].clone()
    } else {
        json!({})
    };
    let templates = Arc::new(templates);
    let cases = Arc::new(cases);
    let results: Arc<Mutex<Vec<Option<Value>>>> = Arc::new(Mutex::new(vec![None; cases.len()]));
    let next = Arc::new(AtomicUsize::new(0));
    let root = crate::scratch_root();
    ctl::install_panic_hook();
    let mut hs = vec![];
    for _ in 0..jobs {
        let cases = cases.clone();
        let results = results.clone();
        let next = next.clone();
        let root = root.clone();
        let cli = cli.clone();
        let templates = templates.clone();
        hs.push(std::thread::spawn(move || loop {
            let i = next.fetch_add(1, Ordering::SeqCst);
            if i >= cases.len() {
                break;
            }
            if crate::ABANDONED.load(Ordering::SeqCst) > crate::MAX_ABANDONED {
                // too many hung / panicked runs are parked already: do not run the rest
                let n = cases[i]["steps"].as_array().map(|a| a.len()).unwrap_or(1);
                results.lock().unwrap()[i] = Some(json!({"id": cases[i]["id"], "skipped": true,
                    "steps": (0..n).map(|_| json!({"verdict": "skipped", "tree": {}})).collect::<Vec<_>>()}));
                continue;
            }
            let dir = root.join(format!("c{i}"));
            let r = run_case(&cases[i], &dir, &cli, &templates);
            let abandoned = r["steps"].as_array().map(|a| a.iter().any(|s| matches!(s["verdict"].as_str(), Some("hang") | Some("panic")))).unwrap_or(false);
            if !abandoned {
                let _ = std::fs::remove_dir_all(&dir);
            } else {
                crate::ABANDONED.fetch_add(1, Ordering::SeqCst);
            }
            results.lock().unwrap()[i] = Some(r);
        }));
    }
    for h in hs {
        h.join().unwrap();
    }
    let mut out = std::io::BufWriter::new(std::fs::File::create(&args[1]).unwrap());
    for r in results.lock().unwrap().iter() {
        writeln!(out, "{}", serde_json::to_string(r.as_ref().unwrap()).unwrap()).unwrap();
    }
    out.flush().unwrap();
    let _ = std::fs::remove_dir_all(&root);
    unsafe { libc::_exit(0) }
}

#[allow(dead_code)]
pub fn root_of(p: &Path) -> PathBuf {
    p.to_path_buf()
}
